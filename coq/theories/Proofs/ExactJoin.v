(* The canonical join, as an equation between whole responses.  The parent step answered the list
   field k with l1 and the join id; the dependent step fetches l2 for every element and the
   scrubber removes the ids.  The accumulated response is then exactly the reference answer to
   k { l1 l2 } -- not only point by point. *)
From Coq Require Import String List Bool Arith ZArith Lia.
From GW Require Import Base.Res Base.GoStr Base.Json Gql.Syntax Gql.Spec Gw.Points
     Proofs.CodecProofs Proofs.PointsProofs.
From GW Require Import Proofs.StitchSound Proofs.JoinSound Proofs.StepJoin Proofs.StepPoints.
Import ListNotations.
Open Scope string_scope.
Open Scope list_scope.

Lemma upd_nth_app {A} (pre : list A) x y rest : upd_nth (pre ++ x :: rest) (length pre) y = pre ++ y :: rest.
Proof. induction pre as [|a r IH]; cbn [app length upd_nth]; [reflexivity|]. f_equal. exact IH. Qed.

Section Exact.
  Variable w : world.
  Variable frags : list fragdef.
  Variable vars : list (string * json).
  Hypothesis world_atomic : atomic_world w vars.
  Variable l1 l2 : list sel.
  Hypothesis good_sub : good (l1 ++ [id_sel]).
  Hypothesis good_l2 : good l2.
  Hypothesis compat_12 : compat (l1 ++ [id_sel]) l2.
  Hypothesis no_id_l2 : ~ In "id" (map key_of l2).
  Variable fuel : nat.
  Variable k : string.
  Hypothesis k_clean : clean_key k.

  Notation sub1 := (l1 ++ [id_sel]).
  Notation answer o sels := (exec (S (S fuel)) w frags vars (Some o) (b_type o) sels).
  Notation pt i o := (point_of k i o).

  (* writing at an element of the list under k *)
  Lemma walk_elem_exact L i id f tgt new :
    (Z.of_nat i <= int64_max)%Z -> nth_error L i = Some tgt -> f tgt = Ok new ->
    walk [with_id (enc_elem k i) id] (JObj [(k, JArr L)]) f = Ok (JObj [(k, JArr (upd_nth L i new))]).
  Proof.
    intros Hi Hn Hf. cbn [walk]. rewrite (decode_elem_id k i id k_clean Hi). cbn [bind pd_field pd_index].
    destruct (list_element_elem_id k i id k_clean Hi) as [-> _].
    cbn [jget]. rewrite String.eqb_refl.
    destruct (Z.of_nat i <? 0)%Z eqn:E; [apply Z.ltb_lt in E; lia|].
    rewrite Nat2Z.id. unfold rd. rewrite Hn. rewrite Hf. cbn [bind jset]. rewrite String.eqb_refl.
    assert (Hlt : i < length L) by (apply nth_error_Some; congruence).
    unfold extend. destruct (Nat.leb (length L) i) eqn:El; [apply Nat.leb_le in El; lia|]. reflexivity.
  Qed.

  Definition P (o : obj) : json := answer o sub1.
  Definition J (o : obj) : json := answer o (sub1 ++ l2).
  Definition C (o : obj) : json := answer o (l1 ++ l2).

  (* the step's visits, exactly *)
  Lemma join_all_exact : forall os pre,
    (Z.of_nat (length pre + length os) <= int64_max)%Z ->
    Forall (fun o => find_obj (b_id o) (w_objs w) = Some o) os ->
    join_all w frags vars l2 fuel (points_from k (length pre) os) (JObj [(k, JArr (pre ++ map P os))]) =
    Ok (JObj [(k, JArr (pre ++ map J os))]).
  Proof.
    induction os as [|o r IH]; intros pre Hb Hnamed; cbn [points_from map join_all]; [reflexivity|].
    inversion Hnamed as [|? ? Ho Hr]; subst. cbn [length] in Hb.
    assert (Hi : (Z.of_nat (length pre) <= int64_max)%Z) by lia.
    assert (Hn : nth_error (pre ++ P o :: map P r) (length pre) = Some (P o))
      by (rewrite nth_error_app2 by lia; rewrite Nat.sub_diag; reflexivity).
    (* reading the point *)
    assert (Hread : extract_value [pt (length pre) o] (JObj [(k, JArr (pre ++ P o :: map P r))]) = Ok (P o)).
    { cbn [extract_value]. unfold point_of. rewrite (decode_elem_id k _ (b_id o) k_clean Hi). cbn [bind pd_field pd_index].
      destruct (list_element_elem_id k (length pre) (b_id o) k_clean Hi) as [-> _].
      cbn [jget]. rewrite String.eqb_refl.
      destruct (Z.of_nat (length pre) <? 0)%Z eqn:E; [apply Z.ltb_lt in E; lia|].
      rewrite Nat2Z.id. unfold rd. rewrite Hn. reflexivity. }
    rewrite Hread. unfold P at 1.
    destruct (answer_has_id w frags vars l1 good_sub fuel o) as [m [Em Eid]].
    rewrite Em. rewrite Eid. rewrite (node_answer w frags vars fuel o l2 Ho).
    cbn [jget]. rewrite String.eqb_refl.
    assert (Hsrc : exists src, answer o l2 = JObj src) by (rewrite exec_unfold; eexists; reflexivity).
    destruct Hsrc as [src Esrc]. rewrite Esrc.
    unfold insert_object.
    rewrite (walk_elem_exact _ (length pre) (b_id o) _ (P o) (JObj (merge_obj m src)) Hi Hn)
      by (unfold P; rewrite Em; reflexivity).
    cbn [bind]. rewrite upd_nth_app.
    assert (HJ : JObj (merge_obj m src) = J o).
    { unfold J. rewrite (stitch_sound w frags vars world_atomic (S (S fuel)) (Some o) (b_type o) sub1 l2 (find_obj_in _ _ _ Ho) good_sub good_l2 compat_12).
      rewrite Em, Esrc. rewrite merge_value_obj. reflexivity. }
    rewrite HJ.
    replace (pre ++ J o :: map P r) with ((pre ++ [J o]) ++ map P r) by (rewrite <- app_assoc; reflexivity).
    replace (S (length pre)) with (length (pre ++ [J o])) by (rewrite app_length; cbn; lia).
    rewrite (IH (pre ++ [J o])); [rewrite <- app_assoc; reflexivity|rewrite app_length; cbn [length]; lia|exact Hr].
  Qed.

  (* the scrubber at the same points, exactly *)
  Lemma scrub_points_exact : forall os pre,
    (Z.of_nat (length pre + length os) <= int64_max)%Z ->
    scrub_points "id" (JObj [(k, JArr (pre ++ map J os))]) (points_from k (length pre) os) =
    Ok (JObj [(k, JArr (pre ++ map C os))]).
  Proof.
    induction os as [|o r IH]; intros pre Hb; cbn [points_from map scrub_points]; [reflexivity|].
    cbn [length] in Hb.
    assert (Hi : (Z.of_nat (length pre) <= int64_max)%Z) by lia.
    assert (Hn : nth_error (pre ++ J o :: map J r) (length pre) = Some (J o))
      by (rewrite nth_error_app2 by lia; rewrite Nat.sub_diag; reflexivity).
    assert (Hobj : exists m, J o = JObj m) by (unfold J; rewrite exec_unfold; eexists; reflexivity).
    destruct Hobj as [m Em].
    unfold scrub_at, point_of.
    rewrite (walk_elem_exact _ (length pre) (b_id o) _ (J o) (JObj (jdel "id" m)) Hi Hn) by (rewrite Em; reflexivity).
    cbn [bind]. rewrite upd_nth_app.
    assert (HC : JObj (jdel "id" m) = C o).
    { unfold C. inversion good_l2 as [? P2 ? ?]; subst.
      apply (scrubbed_join w frags vars l1 good_sub fuel o l2 P2 no_id_l2 m Em). }
    rewrite HC.
    replace (pre ++ C o :: map J r) with ((pre ++ [C o]) ++ map J r) by (rewrite <- app_assoc; reflexivity).
    replace (S (length pre)) with (length (pre ++ [C o])) by (rewrite app_length; cbn; lia).
    rewrite (IH (pre ++ [C o])); [rewrite <- app_assoc; reflexivity|rewrite app_length; cbn [length]; lia].
  Qed.

  (* the reference answer to a list field, for any sub-selection *)
  Lemma list_field_answer po rt a nm args s os :
    rkey a nm = k ->
    resolve w vars po rt (to_c (Field a nm args [] s)) = FList (map (fun o => FRef (b_id o)) os) ->
    Forall (fun o => find_obj (b_id o) (w_objs w) = Some o) os ->
    exec (S (S (S fuel))) w frags vars po rt [Field a nm args [] s] =
    JObj [(k, JArr (map (fun o => answer o s) os))].
  Proof.
    intros Hkey Hres Hnamed. rewrite exec_unfold.
    rewrite collect_plain by (constructor; [exact I|constructor]).
    cbn [fst fold_left]. rewrite add_c_fresh by (intros []). cbn [app map]. rewrite Hres.
    assert (Ekey : c_key (to_c (Field a nm args [] s)) = k) by (cbn [to_c c_key key_of]; exact Hkey).
    rewrite Ekey. cbn [c_sub to_c sub_of complete_with]. f_equal. f_equal. f_equal. f_equal.
    rewrite map_map. clear Hres. induction Hnamed as [|o r Ho Hr IH]; cbn [map]; [reflexivity|].
    cbn [complete_with]. rewrite Ho. f_equal. exact IH.
  Qed.

  (* The canonical join as an equation.  The root (or any object) answers the list field k with
     fewer than 2^63 objects, each named by its own id.  Starting from the reference answer to
     k { l1 id }, the points executorFindInsertionPoints returns, the step's visits and the
     scrubber at those points give exactly the reference answer to k { l1 l2 }. *)
  Theorem canonical_join_exact po rt a nm args os nonnull subf :
    rkey a nm = k ->
    resolve w vars po rt (to_c (Field a nm args [] sub1)) = FList (map (fun o => FRef (b_id o)) os) ->
    Forall (fun o => find_obj (b_id o) (w_objs w) = Some o) os ->
    (Z.of_nat (length os) <= int64_max)%Z ->
    exists m ps acc',
      exec (S (S (S fuel))) w frags vars po rt [Field a nm args [] sub1] = JObj m /\
      find_insertion_points [k] [FS k true nonnull subf] m [] = Ok ps /\
      join_all w frags vars l2 fuel ps (JObj m) = Ok acc' /\
      scrub_points "id" acc' ps = Ok (exec (S (S (S fuel))) w frags vars po rt [Field a nm args [] (l1 ++ l2)]).
  Proof.
    intros Hne Hres Hnamed Hb.
    rewrite (list_field_answer po rt a nm args sub1 os Hne Hres Hnamed).
    assert (Hres2 : resolve w vars po rt (to_c (Field a nm args [] (l1 ++ l2))) = FList (map (fun o => FRef (b_id o)) os))
      by (rewrite <- Hres; apply resolve_same; reflexivity).
    rewrite (list_field_answer po rt a nm args (l1 ++ l2) os Hne Hres2 Hnamed).
    exists [(k, JArr (map P os))], (points_from k 0 os), (JObj [(k, JArr (map J os))]).
    split; [reflexivity|]. split; [|split].
    - unfold find_insertion_points. cbn [length Nat.ltb Nat.leb skipn find_points find_selection fs_key].
      rewrite String.eqb_refl. cbn [jget]. rewrite String.eqb_refl.
      apply (entries_of_answers w frags vars l1 good_sub fuel k).
    - exact (join_all_exact os [] Hb Hnamed).
    - exact (scrub_points_exact os [] Hb).
  Qed.
End Exact.

(* The planner neither drops nor duplicates a field of the client's selection: counting field nodes
   (at every depth, the join ids the planner itself adds excluded), the steps of a plan together
   hold exactly as many as the operation's selection. *)
From Coq Require Import String List Bool Arith Lia.
From GW Require Import Base.Res Base.GoStr Gql.Syntax Gw.Locate Gw.Plan Proofs.PlanProofs.
Import ListNotations.
Open Scope string_scope.
Open Scope list_scope.

(* the synthesised join field is the only field without an alias (gqlparser gives every parsed
   field its name as alias) *)
Definition is_synth (s : sel) : bool :=
  match s with Field alias name _ _ _ => String.eqb alias "" && String.eqb name "id" | _ => false end.

Fixpoint fcount (s : sel) : nat :=
  match s with
  | Field alias name _ _ sub =>
      (if String.eqb alias "" && String.eqb name "id" then 0 else 1) +
      (fix go (l : list sel) : nat := match l with [] => 0 | x :: r => fcount x + go r end) sub
  | Inline _ _ sub => (fix go (l : list sel) : nat := match l with [] => 0 | x :: r => fcount x + go r end) sub
  | Spread _ _ => 0
  end.

Fixpoint fcounts (l : list sel) : nat := match l with [] => 0 | x :: r => fcount x + fcounts r end.

Lemma fcount_field alias name args dirs sub :
  fcount (Field alias name args dirs sub) = (if String.eqb alias "" && String.eqb name "id" then 0 else 1) + fcounts sub.
Proof. reflexivity. Qed.

Lemma fcount_inline t dirs sub : fcount (Inline t dirs sub) = fcounts sub.
Proof. reflexivity. Qed.

Lemma fcounts_app a b : fcounts (a ++ b) = fcounts a + fcounts b.
Proof. induction a as [|x r IH]; cbn [app fcounts]; [reflexivity|]. rewrite IH. lia. Qed.

Definition gcount (m : list (string * list sel)) : nat := fold_right (fun lp acc => fcounts (snd lp) + acc) 0 m.

Lemma add_at_count l s m : gcount (add_at l s m) = gcount m + fcount s.
Proof.
  induction m as [|[l' ss] r IH]; cbn [add_at gcount fold_right snd fcounts]; [lia|].
  destruct (String.eqb l l'); cbn [gcount fold_right snd].
  - rewrite fcounts_app. cbn [fcounts]. fold (gcount r). lia.
  - fold (gcount (add_at l s r)). fold (gcount r). rewrite IH. lia.
Qed.

Section Count.
  Variables (prios : list string) (urls : urlmap) (ft : ftypes).

  Lemma split_count tc ploc : forall sub m parts,
    split_inline prios urls tc ploc sub m = Ok parts -> gcount parts = gcount m + fcounts sub.
  Proof.
    induction sub as [|x r IH]; intros m parts H; cbn [split_inline] in H.
    - injection H as <-. cbn [fcounts]. lia.
    - destruct x as [alias name args dirs sub'|tcond dirs sub'|name dirs].
      + apply bind_ok_inv in H. destruct H as [l [_ H]]. rewrite (IH _ _ H), add_at_count. cbn [fcounts]. lia.
      + rewrite (IH _ _ H), add_at_count. cbn [fcounts]. lia.
      + rewrite (IH _ _ H), add_at_count. cbn [fcounts]. lia.
  Qed.

  Lemma fold_pieces_count tcond dirs : forall parts acc,
    gcount (fold_left (fun acc lp => add_at (fst lp) (Inline tcond dirs (snd lp)) acc) parts acc) = gcount acc + gcount parts.
  Proof.
    induction parts as [|[l ss] r IH]; intros acc; cbn [fold_left]; [cbn [gcount fold_right]; lia|].
    rewrite IH, add_at_count, fcount_inline. cbn [gcount fold_right fst snd]. fold (gcount r). lia.
  Qed.

  Lemma group_count : forall sels ptype ploc acc gs,
    group prios urls ptype ploc sels acc = Ok gs -> gcount gs = gcount acc + fcounts sels.
  Proof.
    induction sels as [|s rest IH]; intros ptype ploc acc gs H; cbn [group] in H.
    - injection H as <-. cbn [fcounts]. lia.
    - destruct s as [alias name args dirs sub|tcond dirs sub|name dirs]; [| |discriminate].
      + apply bind_ok_inv in H. destruct H as [l [_ H]]. rewrite (IH _ _ _ _ H), add_at_count. cbn [fcounts]. lia.
      + apply bind_ok_inv in H. destruct H as [parts [Hp H]]. rewrite (IH _ _ _ _ H), fold_pieces_count.
        rewrite (split_count _ _ _ _ _ Hp). cbn [fcounts gcount fold_right]. rewrite fcount_inline. lia.
  Qed.

  Lemma wrap_count : forall wrapper ss w, wrap wrapper ss = Ok w -> fcounts w = fcounts ss.
  Proof.
    induction wrapper as [|x r IH]; intros ss w H; cbn [wrap] in H.
    - injection H as <-. reflexivity.
    - destruct x as [| tcond dirs sub |]; try discriminate.
      apply bind_ok_inv in H. destruct H as [inner [Hi H]]. injection H as <-.
      cbn [fcounts]. rewrite fcount_inline, (IH _ _ Hi). lia.
  Qed.

  Definition pcount (ps : list payload) : nat := fold_right (fun p acc => fcounts (pl_sels p) + acc) 0 ps.

  Lemma pcount_app a b : pcount (a ++ b) = pcount a + pcount b.
  Proof. unfold pcount. induction a as [|x r IH]; cbn [app fold_right]; [reflexivity|]. rewrite IH. lia. Qed.

  (* the groups of other locations become payloads holding the same fields *)
  Lemma queue_others_count ptype ploc ipoint wrapper : forall gs ps,
    queue_others ptype ploc ipoint wrapper gs = Ok ps ->
    pcount ps + fcounts (match get_at ploc gs with Some ss => ss | None => [] end) = gcount gs \/ ~ NoDup (map fst gs).
  Proof.
    induction gs as [|[l ss] r IH]; intros ps H; cbn [queue_others] in H.
    - injection H as <-. left. reflexivity.
    - apply bind_ok_inv in H. destruct H as [rest [Hr H]].
      destruct (IH rest Hr) as [E|E]; [|right; intros Hnd; apply E; cbn [map fst] in Hnd; inversion Hnd; assumption].
      cbn [get_at gcount fold_right snd]. fold (gcount r).
      destruct (String.eqb l ploc) eqn:El.
      + apply String.eqb_eq in El. subst l. injection H as <-. rewrite String.eqb_refl.
        (* the group of ploc itself: no other group has that key, or the keys repeat *)
        destruct (get_at ploc r) as [ss'|] eqn:Eg.
        * right. intros Hnd. cbn [map fst] in Hnd. inversion Hnd as [|? ? Hnot _]; subst. apply Hnot.
          clear - Eg. induction r as [|[l2 s2] r2 IHr]; cbn [get_at] in Eg; [discriminate|].
          destruct (String.eqb ploc l2) eqn:E2; [apply String.eqb_eq in E2; subst; left; reflexivity|right; apply IHr; exact Eg].
        * left. cbn [fcounts] in E. lia.
      + apply bind_ok_inv in H. destruct H as [wrapped [Hw H]]. injection H as <-.
        assert (Hne: String.eqb ploc l = false) by (apply String.eqb_neq; intros ->; rewrite String.eqb_refl in El; discriminate).
        rewrite Hne.
        left. cbn [pcount fold_right pl_sels]. fold (pcount rest).
        assert (fcounts wrapped = fcounts ss).
        { destruct wrapper; [injection Hw as <-; reflexivity|eapply wrap_count; exact Hw]. }
        lia.
  Qed.

  Lemma keep_count (below : string -> list string -> list sel -> list sel -> res (list sel * list payload)) ptype ipoint wrapper :
    (forall t ip w sub r, below t ip w sub = Ok r -> fcounts (fst r) + pcount (snd r) = fcounts sub) ->
    forall cur kept, keep_with ft below ptype ipoint wrapper cur = Ok kept ->
                     fcounts (fst kept) + pcount (snd kept) = fcounts cur.
  Proof.
    intros Hbelow. induction cur as [|s r IH]; intros kept H; cbn [keep_with] in H.
    - injection H as <-. reflexivity.
    - apply bind_ok_inv in H. destruct H as [here [Hh H]]. apply bind_ok_inv in H. destruct H as [more [Hm H]].
      injection H as <-. cbn [fst snd fcounts]. rewrite pcount_app. specialize (IH more Hm).
      assert (Hhere: fcount (fst here) + pcount (snd here) = fcount s).
      { destruct s as [alias name args dirs sub|tcond dirs sub|name dirs]; [| |discriminate].
        - destruct sub as [|s0 sub'].
          + injection Hh as <-. cbn [fst snd pcount fold_right]. lia.
          + destruct (assoc (url_key ptype name) ft) as [t|]; [|discriminate].
            apply bind_ok_inv in Hh. destruct Hh as [b [Hb Hh]]. injection Hh as <-. cbn [fst snd].
            rewrite !fcount_field. specialize (Hbelow _ _ _ _ _ Hb). lia.
        - apply bind_ok_inv in Hh. destruct Hh as [b [Hb Hh]]. injection Hh as <-. cbn [fst snd].
          rewrite !fcount_inline. apply (Hbelow _ _ _ _ _ Hb). }
      lia.
  Qed.

  Theorem extract_count : forall fuel ptype ploc ipoint wrapper sels r,
    extract prios urls ft fuel ptype ploc ipoint wrapper sels = Ok r ->
    fcounts (fst r) + pcount (snd r) = fcounts sels.
  Proof.
    induction fuel as [|fuel IH]; intros ptype ploc ipoint wrapper sels r H; [discriminate|].
    cbn [extract] in H.
    apply bind_ok_inv in H. destruct H as [groups [Hg H]].
    apply bind_ok_inv in H. destruct H as [others [Ho H]].
    apply bind_ok_inv in H. destruct H as [kept [Hk H]]. injection H as <-. cbn [fst snd].
    pose proof (group_count _ _ _ _ _ Hg) as Gc. cbn [gcount fold_right] in Gc.
    pose proof (group_levels_are_disjoint _ _ _ _ _ _ Hg) as Gn.
    destruct (queue_others_count _ _ _ _ _ _ Ho) as [Oc|Oc]; [|contradiction].
    assert (Kc := keep_count _ ptype ipoint wrapper (fun t ip w sub r0 Hr0 => IH t ploc ip w sub r0 Hr0) _ _ Hk).
    rewrite pcount_app.
    assert (Hcur: fcounts (match others with [] => match get_at ploc groups with Some ss => ss | None => [] end
                           | _ :: _ => match get_at ploc groups with Some ss => ss | None => [] end ++ [id_field] end)
                  = fcounts (match get_at ploc groups with Some ss => ss | None => [] end)).
    { destruct others; [reflexivity|]. rewrite fcounts_app. cbn. lia. }
    rewrite Hcur in Kc. lia.
  Qed.

  (* the fields held by a step and everything below it *)
  Fixpoint scount (s : pstep) : nat :=
    match s with
    | PStep _ _ _ sels thens => fcounts sels + (fix go (l : list pstep) : nat := match l with [] => 0 | x :: r => scount x + go r end) thens
    end.
  Fixpoint scounts (l : list pstep) : nat := match l with [] => 0 | x :: r => scount x + scounts r end.

  Lemma scount_unfold loc ptype ip sels thens : scount (PStep loc ptype ip sels thens) = fcounts sels + scounts thens.
  Proof. reflexivity. Qed.

  Lemma map_res_count fuel : (forall p s, build prios urls ft fuel p = Ok s -> scount s = fcounts (pl_sels p)) ->
    forall ps thens, map_res (build prios urls ft fuel) ps = Ok thens -> scounts thens = pcount ps.
  Proof.
    intros Hb. induction ps as [|p r IH]; intros thens H; cbn [map_res] in H.
    - injection H as <-. reflexivity.
    - apply bind_ok_inv in H. destruct H as [s [Hs H]]. apply bind_ok_inv in H. destruct H as [rest [Hr H]].
      injection H as <-. cbn [scounts pcount fold_right]. fold (pcount r). rewrite (Hb _ _ Hs), (IH _ Hr). reflexivity.
  Qed.

  Theorem build_count : forall fuel p s, build prios urls ft fuel p = Ok s -> scount s = fcounts (pl_sels p).
  Proof.
    induction fuel as [|fuel IH]; intros p s H; [discriminate|].
    cbn [build] in H. apply bind_ok_inv in H. destruct H as [e [He H]].
    apply bind_ok_inv in H. destruct H as [thens [Ht H]]. injection H as <-.
    rewrite scount_unfold, (map_res_count fuel IH _ _ Ht). apply (extract_count _ _ _ _ _ _ _ He).
  Qed.

  (* the plan of an operation holds exactly the operation's fields *)
  Corollary plan_conserves_fields fuel root sels s :
    plan_operation prios urls ft fuel root sels = Ok s -> scount s = fcounts sels.
  Proof. unfold plan_operation. intros H. apply build_count in H. exact H. Qed.
End Count.

(* Confinement of every step of the full planner model (Gw/Plan2.v), named fragment spreads
   included.  A step's selection may spread fragments; what the service receives is the selection
   together with the step's own fragment definitions.  The statement: for every step there is a set
   G of fragment names such that
     - every spread in the step's selection, and in the body of every fragment of G, is a spread of
       a fragment of G,
     - every fragment of G is defined among the step's own definitions (the first definition of
       that name is the one a service resolves the spread with),
     - every field of the step's selection, and of the body of every fragment of G read on that
       definition's own type condition, is the join id the planner adds or a field the chooser
       places at the step's location (given that location as the enclosing one), all the way down.
   This is partial correctness (whenever the planner model returns a plan): no assumption on the
   document, acyclic fragments included, is needed. *)
From Coq Require Import String List Bool Arith.
From GW Require Import Base.Res Base.GoStr Gql.Syntax Gw.Locate Gw.Plan Gw.Plan2 Proofs.PlanProofs.
Import ListNotations.
Open Scope string_scope.
Open Scope list_scope.

(* ---------- lookups in a list of definitions ---------- *)
Lemma frag_for_app n : forall fs d,
  frag_for n (fs ++ [d]) = match frag_for n fs with
                           | Some x => Some x
                           | None => if String.eqb (f_name d) n then Some d else None
                           end.
Proof.
  induction fs as [|f r IH]; intros d; cbn [app frag_for]; [reflexivity|].
  destruct (String.eqb (f_name f) n); [reflexivity|apply IH].
Qed.

Definition with_sel (f : fragdef) (ss : list sel) : fragdef :=
  {| f_name := f_name f; f_tcond := f_tcond f; f_dirs := f_dirs f; f_sel := ss |}.

Lemma frag_for_set n name ss : forall fs,
  frag_for n (set_frag_sel name ss fs) =
  if String.eqb n name then option_map (fun f => with_sel f ss) (frag_for name fs) else frag_for n fs.
Proof.
  induction fs as [|f r IH]; cbn [set_frag_sel frag_for option_map]; [destruct (String.eqb n name); reflexivity|].
  destruct (String.eqb (f_name f) name) eqn:E.
  - cbn [frag_for f_name option_map]. destruct (String.eqb n name) eqn:En.
    + apply String.eqb_eq in En. subst n. rewrite E. reflexivity.
    + destruct (String.eqb (f_name f) n) eqn:E2; [|reflexivity].
      apply String.eqb_eq in E2. apply String.eqb_eq in E. rewrite <- E2, E, String.eqb_refl in En. discriminate.
  - cbn [frag_for]. rewrite IH. destruct (String.eqb n name) eqn:En.
    + apply String.eqb_eq in En. subst n. rewrite E. reflexivity.
    + reflexivity.
Qed.

Section Confined2.
  Variables (prios : list string) (urls : urlmap) (ft : ftypes) (planfrags : list fragdef).
  Notation choose := (choose prios urls).
  Notation tc_of ptype tcond := (if String.eqb tcond "" then ptype else tcond).

  Section AtLoc.
    Variable loc : string.

    (* a selection sent to [loc], read on [ptype]; a spread is allowed when its name is in G *)
    Fixpoint conf (G : string -> Prop) (ptype : string) (s : sel) {struct s} : Prop :=
      match s with
      | Field alias name _ _ sub =>
          ((alias = "" /\ name = "id") \/ choose ptype name loc = Ok loc) /\
          match sub with
          | [] => True
          | _ => match assoc (url_key ptype name) ft with
                 | Some t => (fix all (l : list sel) : Prop := match l with [] => True | x :: r => conf G t x /\ all r end) sub
                 | None => True
                 end
          end
      | Inline tcond _ sub =>
          (fix all (l : list sel) : Prop := match l with [] => True | x :: r => conf G (tc_of ptype tcond) x /\ all r end) sub
      | Spread name _ => G name
      end.

    Definition confs (G : string -> Prop) (ptype : string) (l : list sel) : Prop := Forall (conf G ptype) l.

    Lemma all_forall G t : forall l,
      (fix all (l : list sel) : Prop := match l with [] => True | x :: r => conf G t x /\ all r end) l <-> confs G t l.
    Proof.
      unfold confs. induction l as [|x r IH]; split; intros H.
      - constructor.
      - exact I.
      - destruct H as [Hx Hr]. constructor; [exact Hx|apply IH; exact Hr].
      - inversion H; subst. split; [assumption|apply IH; assumption].
    Qed.

    Lemma conf_field G ptype alias name args dirs sub :
      conf G ptype (Field alias name args dirs sub) <->
      ((alias = "" /\ name = "id") \/ choose ptype name loc = Ok loc) /\
      match sub with
      | [] => True
      | _ => match assoc (url_key ptype name) ft with Some t => confs G t sub | None => True end
      end.
    Proof.
      cbn [conf]. destruct sub as [|s0 sub']; [tauto|].
      destruct (assoc (url_key ptype name) ft) as [t|]; [|tauto].
      rewrite (all_forall G t (s0 :: sub')). tauto.
    Qed.

    Lemma conf_inline G ptype tcond dirs sub :
      conf G ptype (Inline tcond dirs sub) <-> confs G (tc_of ptype tcond) sub.
    Proof. cbn [conf]. apply all_forall. Qed.

    Lemma conf_mono (G G' : string -> Prop) : (forall n, G n -> G' n) -> forall s ptype, conf G ptype s -> conf G' ptype s.
    Proof.
      intros HG. induction s as [a n args dirs sub IH|t dirs sub IH|n dirs] using sel_ind'; intros ptype H.
      - apply conf_field in H. apply conf_field. destruct H as [Hh Hs]. split; [exact Hh|].
        destruct sub as [|s0 sub']; [exact I|]. destruct (assoc (url_key ptype n) ft) as [t|]; [|exact I].
        unfold confs in *. rewrite Forall_forall in *. intros x Hx. apply IH; [exact Hx|]. apply Hs. exact Hx.
      - apply conf_inline in H. apply conf_inline. unfold confs in *. rewrite Forall_forall in *.
        intros x Hx. apply IH; [exact Hx|]. apply H. exact Hx.
      - cbn [conf] in *. apply HG. exact H.
    Qed.

    Lemma confs_mono (G G' : string -> Prop) : (forall n, G n -> G' n) -> forall l ptype, confs G ptype l -> confs G' ptype l.
    Proof. intros HG l ptype H. unfold confs in *. eapply Forall_impl; [|exact H]. intros s Hs. eapply conf_mono; eassumption. Qed.

    (* the fragments of G are defined in [sf] and their bodies are confined, on their own type *)
    Definition good_env (G : string -> Prop) (sf : list fragdef) : Prop :=
      forall n, G n -> exists d, frag_for n sf = Some d /\ confs G (f_tcond d) (f_sel d).

    (* how the definitions of a step evolve while it is built: a name keeps the type condition of
       its first definition; a name that appears gets the type condition of the document's own *)
    Definition evolves (sf sf' : list fragdef) : Prop :=
      forall n, match frag_for n sf with
                | Some d => exists d', frag_for n sf' = Some d' /\ f_tcond d' = f_tcond d
                | None => forall d', frag_for n sf' = Some d' ->
                                     exists pd, frag_for n planfrags = Some pd /\ f_tcond d' = f_tcond pd
                end.

    Lemma ext_refl sf : evolves sf sf.
    Proof.
      intros n. destruct (frag_for n sf) as [d|]; [exists d; split; reflexivity|].
      intros d' H. discriminate.
    Qed.

    Lemma ext_trans a b c : evolves a b -> evolves b c -> evolves a c.
    Proof.
      intros Hab Hbc n. pose proof (Hab n) as A. pose proof (Hbc n) as B.
      destruct (frag_for n a) as [d|].
      - destruct A as [d' [Eb Ht]]. rewrite Eb in B. destruct B as [d'' [Ec Ht']]. exists d''. split; [exact Ec|congruence].
      - intros d'' Ec. destruct (frag_for n b) as [d'|].
        + destruct B as [d3 [Ec' Ht]]. rewrite Ec in Ec'. injection Ec' as <-.
          destruct (A d' eq_refl) as [pd [Ep Htp]]. exists pd. split; [exact Ep|congruence].
        + apply B. exact Ec.
    Qed.

    Lemma ext_set name ss sf : evolves sf (set_frag_sel name ss sf).
    Proof.
      intros n. rewrite frag_for_set. destruct (String.eqb n name) eqn:En.
      - apply String.eqb_eq in En. subst n. destruct (frag_for name sf) as [d|]; cbn [option_map].
        + exists (with_sel d ss). split; reflexivity.
        + intros d' H. discriminate.
      - destruct (frag_for n sf) as [d|] eqn:E; [exists d; split; [reflexivity|reflexivity]|]. intros d' H. discriminate.
    Qed.

    Lemma ext_app_new sf d pd :
      frag_for (f_name d) planfrags = Some pd -> f_tcond d = f_tcond pd -> evolves sf (sf ++ [d]).
    Proof.
      intros Hp Ht n. rewrite frag_for_app. destruct (frag_for n sf) as [x|] eqn:E.
      - exists x. split; reflexivity.
      - intros d' H. destruct (String.eqb (f_name d) n) eqn:En; [|discriminate].
        injection H as <-. apply String.eqb_eq in En. subst n. exists pd. split; assumption.
    Qed.

    (* setting the body of [name] to a confined selection makes [name] a good fragment *)
    Lemma good_env_set (G : string -> Prop) sf name ks d :
      good_env G sf -> frag_for name sf = Some d -> confs G (f_tcond d) ks ->
      good_env (fun n => G n \/ n = name) (set_frag_sel name ks sf).
    Proof.
      intros Hg Hd Hk n Hn. rewrite frag_for_set. destruct (String.eqb n name) eqn:En.
      - apply String.eqb_eq in En. subst n. rewrite Hd. cbn [option_map]. exists (with_sel d ks). split; [reflexivity|].
        cbn [with_sel f_tcond f_sel]. eapply confs_mono; [|exact Hk]. intros m Hm. left. exact Hm.
      - destruct Hn as [Hn|Hn]; [|subst n; rewrite String.eqb_refl in En; discriminate].
        destruct (Hg n Hn) as [d0 [E0 H0]]. exists d0. split; [exact E0|].
        eapply confs_mono; [|exact H0]. intros m Hm. left. exact Hm.
    Qed.

    Lemma good_env_app (G : string -> Prop) sf d : good_env G sf -> good_env G (sf ++ [d]).
    Proof.
      intros Hg n Hn. destruct (Hg n Hn) as [d0 [E0 H0]]. exists d0. split; [|exact H0].
      rewrite frag_for_app, E0. reflexivity.
    Qed.

    (* ---------- one level: keep_with2 ---------- *)
    Definition head_ok (ptype : string) (s : sel) : Prop :=
      match s with
      | Field alias name _ _ _ => (alias = "" /\ name = "id") \/ choose ptype name loc = Ok loc
      | _ => True
      end.

    Definition below_ok (below : list fragdef -> string -> list string -> list sel -> list sel -> res ext) : Prop :=
      forall sf0 t ip w sub ks ps sf1 (G : string -> Prop),
        below sf0 t ip w sub = Ok (ks, ps, sf1) -> good_env G sf0 ->
        exists G' : string -> Prop, (forall n, G n -> G' n) /\ good_env G' sf1 /\ confs G' t ks /\ evolves sf0 sf1.

    Lemma find_defn_cases name sf defn :
      find_defn planfrags name sf = Ok defn ->
      (frag_for name sf = Some defn) \/ (frag_for name sf = None /\ frag_for name planfrags = Some defn).
    Proof.
      unfold find_defn. destruct (frag_for name sf) as [d|]; [intros H; injection H as <-; left; reflexivity|].
      destruct (frag_for name planfrags) as [d|]; [intros H; injection H as <-; right; split; reflexivity|discriminate].
    Qed.

    Lemma keep_confined2 below ptype ipoint wrapper lf_here :
      below_ok below ->
      forall cur sf0 ks ps sf1 (G : string -> Prop),
        keep_with2 ft planfrags below ptype ipoint wrapper lf_here cur sf0 = Ok (ks, ps, sf1) ->
        Forall (head_ok ptype) cur -> good_env G sf0 ->
        exists G' : string -> Prop, (forall n, G n -> G' n) /\ good_env G' sf1 /\ confs G' ptype ks /\ evolves sf0 sf1.
    Proof.
      intros Hbelow. induction cur as [|s r IH]; intros sf0 ks ps sf1 G H Hcur Hg; cbn [keep_with2] in H.
      - injection H as <- <- <-. exists G. split; [auto|]. split; [exact Hg|]. split; [constructor|apply ext_refl].
      - inversion Hcur as [|? ? Hs Hr]; subst.
        apply bind_ok_inv in H. destruct H as [[[hs hps] sf'] [Hh H]].
        apply bind_ok_inv in H. destruct H as [[[ms mps] sf''] [Hm H]]. injection H as <- <- <-.
        (* the head *)
        assert (Hhead: exists G1 : string -> Prop, (forall n, G n -> G1 n) /\ good_env G1 sf' /\ confs G1 ptype hs /\ evolves sf0 sf').
        { destruct s as [alias name args dirs sub|tcond dirs sub|name dirs].
          - destruct sub as [|s0 sub'].
            + injection Hh as <- <- <-. exists G. split; [auto|]. split; [exact Hg|]. split; [|apply ext_refl].
              constructor; [|constructor]. apply conf_field. split; [exact Hs|exact I].
            + destruct (assoc (url_key ptype name) ft) as [t|] eqn:Et; [|discriminate].
              apply bind_ok_inv in Hh. destruct Hh as [[[bks bps] bsf] [Hb Hh]]. injection Hh as <- <- <-.
              destruct (Hbelow _ _ _ _ _ _ _ _ G Hb Hg) as [G1 [HG [Hg1 [Hk Hx]]]].
              exists G1. split; [exact HG|]. split; [exact Hg1|]. split; [|exact Hx].
              constructor; [|constructor]. apply conf_field. split; [exact Hs|].
              destruct bks; [exact I|]. rewrite Et. exact Hk.
          - apply bind_ok_inv in Hh. destruct Hh as [[[bks bps] bsf] [Hb Hh]]. injection Hh as <- <- <-.
            destruct (Hbelow _ _ _ _ _ _ _ _ G Hb Hg) as [G1 [HG [Hg1 [Hk Hx]]]].
            exists G1. split; [exact HG|]. split; [exact Hg1|]. split; [|exact Hx].
            constructor; [|constructor]. apply conf_inline. exact Hk.
          - apply bind_ok_inv in Hh. destruct Hh as [defn [Hd Hh]].
            apply bind_ok_inv in Hh. destruct Hh as [[[bks bps] bsf] [Hb Hh]]. injection Hh as <- <- <-.
            destruct (Hbelow _ _ _ _ _ _ _ _ G Hb Hg) as [G1 [HG [Hg1 [Hk Hx]]]].
            destruct (find_defn_cases _ _ _ Hd) as [Hown|[Hnone Hplan]].
            + (* the step already has a definition of that name *)
              rewrite Hown. pose proof (Hx name) as Hxn. rewrite Hown in Hxn. destruct Hxn as [d' [Ed' Ht']].
              exists (fun n => G1 n \/ n = name). split; [intros n Hn; left; apply HG; exact Hn|].
              split; [eapply good_env_set; [exact Hg1|exact Ed'|rewrite Ht'; exact Hk]|].
              split; [constructor; [cbn [conf]; right; reflexivity|constructor]|].
              eapply ext_trans; [exact Hx|apply ext_set].
            + rewrite Hnone.
              set (nd := {| f_name := name; f_tcond := f_tcond defn; f_dirs := f_dirs defn; f_sel := [] |}).
              assert (Hfirst: exists d', frag_for name (bsf ++ [nd]) = Some d' /\ f_tcond d' = f_tcond defn).
              { rewrite frag_for_app. destruct (frag_for name bsf) as [x|] eqn:Ex.
                - exists x. split; [reflexivity|]. pose proof (Hx name) as Hxn. rewrite Hnone in Hxn.
                  destruct (Hxn x Ex) as [pd [Ep Htp]]. rewrite Hplan in Ep. injection Ep as <-. exact Htp.
                - cbn [nd f_name]. rewrite String.eqb_refl. exists nd. split; reflexivity. }
              destruct Hfirst as [d' [Ed' Ht']].
              exists (fun n => G1 n \/ n = name). split; [intros n Hn; left; apply HG; exact Hn|].
              split; [eapply good_env_set; [apply good_env_app; exact Hg1|exact Ed'|rewrite Ht'; exact Hk]|].
              split; [constructor; [cbn [conf]; right; reflexivity|constructor]|].
              eapply ext_trans; [exact Hx|]. eapply ext_trans; [|apply ext_set].
              eapply (ext_app_new bsf nd defn); [exact Hplan|reflexivity]. }
        destruct Hhead as [G1 [HG1 [Hg1 [Hk1 Hx1]]]].
        destruct (IH _ _ _ _ G1 Hm Hr Hg1) as [G2 [HG2 [Hg2 [Hk2 Hx2]]]].
        exists G2. split; [intros n Hn; apply HG2, HG1; exact Hn|]. split; [exact Hg2|].
        split; [|eapply ext_trans; eassumption].
        unfold confs. apply Forall_app. split; [eapply confs_mono; [exact HG2|exact Hk1]|exact Hk2].
    Qed.

    (* ---------- what groupSelectionSet leaves at the step's own location ---------- *)
    Definition fplaced (ptype ploc l : string) (s : sel) : Prop :=
      match s with Field _ name _ _ _ => choose ptype name ploc = Ok l | _ => True end.

    Definition groups_fplaced (ptype ploc : string) (m : list (string * list sel)) : Prop :=
      Forall (fun lp => Forall (fplaced ptype ploc (fst lp)) (snd lp)) m.

    Lemma add_at_fplaced ptype ploc l s m :
      groups_fplaced ptype ploc m -> fplaced ptype ploc l s -> groups_fplaced ptype ploc (add_at l s m).
    Proof.
      unfold groups_fplaced. induction m as [|[l' ss] r IH]; intros Hm Hs; cbn [add_at].
      - constructor; [cbn [fst snd]; constructor; [exact Hs|constructor]|constructor].
      - inversion Hm as [|? ? Hh Ht]; subst. destruct (String.eqb l l') eqn:E.
        + apply String.eqb_eq in E. subst l'. constructor; [|exact Ht]. cbn [fst snd] in *.
          apply Forall_app. split; [exact Hh|constructor; [exact Hs|constructor]].
        + constructor; [exact Hh|apply IH; assumption].
    Qed.

    Lemma fold_add_fplaced ptype ploc (f : string * list sel -> sel) :
      (forall lp, fplaced ptype ploc (fst lp) (f lp)) ->
      forall parts acc, groups_fplaced ptype ploc acc ->
        groups_fplaced ptype ploc (fold_left (fun acc lp => add_at (fst lp) (f lp) acc) parts acc).
    Proof.
      intros Hf. induction parts as [|p r IH]; intros acc Hacc; cbn [fold_left]; [exact Hacc|].
      apply IH. apply add_at_fplaced; [exact Hacc|apply Hf].
    Qed.

    Lemma group2_fplaced sfrags ptype ploc : forall sels acc lf g,
      groups_fplaced ptype ploc acc -> group2 prios urls planfrags sfrags ptype ploc sels acc lf = Ok g ->
      groups_fplaced ptype ploc (fst g).
    Proof.
      induction sels as [|s rest IH]; intros acc lf g Hacc H; cbn [group2] in H.
      - injection H as <-. exact Hacc.
      - destruct s as [alias name args dirs sub|tcond dirs sub|name dirs].
        + apply bind_ok_inv in H. destruct H as [l [Hl H]]. eapply IH; [|exact H]. apply add_at_fplaced; [exact Hacc|exact Hl].
        + apply bind_ok_inv in H. destruct H as [parts [_ H]]. eapply IH; [|exact H].
          apply (fold_add_fplaced ptype ploc (fun lp => Inline tcond dirs (snd lp))); [intros lp; exact I|exact Hacc].
        + apply bind_ok_inv in H. destruct H as [defn [_ H]]. apply bind_ok_inv in H. destruct H as [parts [_ H]].
          eapply IH; [|exact H].
          apply (fold_add_fplaced ptype ploc (fun lp => Spread name dirs)); [intros lp; exact I|exact Hacc].
    Qed.

    Lemma get_at_fplaced ptype ploc l gs ss :
      groups_fplaced ptype ploc gs -> get_at l gs = Some ss -> Forall (fplaced ptype ploc l) ss.
    Proof.
      unfold groups_fplaced. induction gs as [|[l' ss'] r IH]; intros H E; cbn [get_at] in E; [discriminate|].
      inversion H as [|? ? Hh Ht]; subst. destruct (String.eqb l l') eqn:El.
      - apply String.eqb_eq in El. subst l'. injection E as <-. exact Hh.
      - apply IH; assumption.
    Qed.
  End AtLoc.

  (* ---------- extractSelection, the step, the plan ---------- *)
  Theorem extract2_confined : forall fuel sfrags ptype ploc ip w sels ks ps sf (G : string -> Prop),
    extract2 prios urls ft planfrags fuel sfrags ptype ploc ip w sels = Ok (ks, ps, sf) -> good_env ploc G sfrags ->
    exists G' : string -> Prop, (forall n, G n -> G' n) /\ good_env ploc G' sf /\ confs ploc G' ptype ks /\ evolves sfrags sf.
  Proof.
    induction fuel as [|fuel IH]; intros sfrags ptype ploc ip w sels ks ps sf G H Hg; [discriminate|].
    cbn [extract2] in H.
    apply bind_ok_inv in H. destruct H as [[groups lf] [Hgr H]].
    apply bind_ok_inv in H. destruct H as [others [Ho H]].
    apply bind_ok_inv in H. destruct H as [[[kks kps] ksf] [Hk H]]. injection H as <- <- <-.
    eapply (keep_confined2 ploc); [| exact Hk | | exact Hg].
    - intros sf0 t ip0 w0 sub ks0 ps0 sf1 G0 Hb Hg0. eapply IH; eassumption.
    - assert (Hp: groups_fplaced ptype ploc groups).
      { apply (group2_fplaced sfrags ptype ploc sels [] [] (groups, lf)); [constructor|exact Hgr]. }
      assert (Hcur: Forall (head_ok ploc ptype) (match get_at ploc groups with Some ss => ss | None => [] end)).
      { destruct (get_at ploc groups) as [ss|] eqn:Eg; [|constructor].
        eapply Forall_impl; [|eapply get_at_fplaced; eassumption].
        intros a Ha. destruct a; cbn [head_ok fplaced] in *; [right; exact Ha|exact I|exact I]. }
      destruct others; [exact Hcur|]. apply Forall_app. split; [exact Hcur|].
      constructor; [cbn [head_ok id_field]; left; split; reflexivity|constructor].
  Qed.

  Inductive step_confined2 : fstep -> Prop :=
  | step_confined2_intro loc ptype ip ks sf thens (G : string -> Prop) :
      good_env loc G sf -> confs loc G ptype ks -> Forall step_confined2 thens ->
      step_confined2 (FStep loc ptype ip ks sf thens).

  Theorem build2_confined : forall fuel p s,
    build2 prios urls ft planfrags fuel p = Ok s -> step_confined2 s.
  Proof.
    induction fuel as [|fuel IH]; intros p s H; [discriminate|].
    cbn [build2] in H. apply bind_ok_inv in H. destruct H as [[[ks ps] sf] [He H]].
    apply bind_ok_inv in H. destruct H as [thens [Ht H]]. injection H as <-.
    destruct (extract2_confined _ _ _ _ _ _ _ _ _ _ (fun _ => False) He) as [G [_ [Hg [Hk _]]]].
    { intros n []. }
    econstructor; [exact Hg|exact Hk|].
    eapply map_res_forall; [|exact Ht]. intros x y Hxy. eapply IH. exact Hxy.
  Qed.

  Corollary plan2_confined fuel root sels s :
    plan_operation2 prios urls ft planfrags fuel root sels = Ok s -> step_confined2 s.
  Proof. unfold plan_operation2. apply build2_confined. Qed.
End Confined2.

(* C17 — exactly the named operation is executed, unaffected by its neighbours.
   Property theorems only.  Model: Gw/Select.v (Gateway.Execute's choice, QueryPlanList.ForOperation,
   generateScrubFields' per-plan loop); proofs in Proofs/SelectProofs.v.  That the chosen plan, run
   inside its document, returns what it returns when it is the only operation is decided on every
   generated document by the correspondence run (oracle c17_holds: same data as the reduced
   document and as the reference interpreter). *)
From Coq Require Import String List Bool.
From GW Require Import Base.Res Gw.Select Proofs.SelectProofs.
Import ListNotations.
Open Scope string_scope.
Open Scope list_scope.

(* For every document (list of plans, one per operation, names unique before the named one):
   asking for a named operation chooses exactly its plan, wherever it stands and whatever the
   other operations are. *)
Theorem C17_named_operation_is_chosen : forall (plan : Type) (name_of : plan -> string) pre p post,
  name_of p <> "" -> (forall q, In q pre -> name_of q <> name_of p) ->
  choose_plan plan name_of (pre ++ p :: post) (name_of p) = Ok p.
Proof. exact choose_named. Qed.
Print Assumptions C17_named_operation_is_chosen.

(* whatever is chosen is a plan of the document, and carries the requested name unless the
   document has a single operation *)
Theorem C17_chosen_is_the_named : forall (plan : Type) (name_of : plan -> string) plans name p,
  choose_plan plan name_of plans name = Ok p ->
  In p plans /\ (length plans <> 1 -> name_of p = name /\ name <> "").
Proof. exact choose_sound. Qed.
Print Assumptions C17_chosen_is_the_named.

(* a missing or unknown name in a document of several operations is an error, and then nothing is
   run: the executor, and through it every service, is reached only with a chosen plan *)
Theorem C17_missing_or_unknown_runs_nothing : forall (plan R : Type) (name_of : plan -> string) (run : plan -> R) plans name,
  length plans <> 1 -> (name = "" \/ forall p, In p plans -> name_of p <> name) ->
  is_err (execute plan name_of run plans name) = true.
Proof.
  intros plan R name_of run plans name Hl H. apply execute_nothing_without_plan. apply choose_missing_or_unknown; assumption.
Qed.
Print Assumptions C17_missing_or_unknown_runs_nothing.

Theorem C17_runs_the_chosen : forall (plan R : Type) (name_of : plan -> string) (run : plan -> R) plans name p,
  choose_plan plan name_of plans name = Ok p -> execute plan name_of run plans name = Ok (run p).
Proof. intros plan R name_of run plans name p. apply execute_runs_chosen. Qed.
Print Assumptions C17_runs_the_chosen.

(* what the planner computes for a plan after planning (the scrub paths) depends on that plan
   alone: the same plan gets the same paths in any document *)
Theorem C17_scrub_paths_are_per_plan : forall (plan S : Type) (scrub_of : plan -> S) pre p post pre' post',
  nth_error (scrub_all scrub_of (pre ++ p :: post)) (length pre) = Some (p, scrub_of p) /\
  nth_error (scrub_all scrub_of (pre' ++ p :: post')) (length pre') = Some (p, scrub_of p).
Proof. intros. apply scrub_all_local. Qed.
Print Assumptions C17_scrub_paths_are_per_plan.

Example C17_nonvacuous :
  choose_plan string (fun n => n) ["A"; "B"; "C"] "B" = Ok "B" /\
  is_err (choose_plan string (fun n => n) ["A"; "B"] "") = true /\
  is_err (choose_plan string (fun n => n) ["A"; "B"] "Z") = true /\
  choose_plan string (fun n => n) ["Only"] "" = Ok "Only".
Proof. repeat split; reflexivity. Qed.

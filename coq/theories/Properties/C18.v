(* C18 — uploaded files land exactly where the multipart map says.
   Property theorems only; proofs are in Proofs/InjectProofs.v, the model of
   http.go:injectFile and the reference semantics are in Gw/Inject.v. *)
From Coq Require Import String List ZArith Bool.
From GW Require Import Base.Res Base.GoStr Base.Json Gw.Inject Proofs.InjectProofs.
Import ListNotations.
Open Scope string_scope.

(* For every list of operations, every set of (file, paths) map entries and both modes:
   the code returns exactly what the reference application of the map returns, and an
   error (never a panic, never a changed tree handed on) whenever the reference is undefined,
   i.e. when some path points outside the variables, out of range or at a non-null value. *)
Theorem C18_code_is_reference : forall batch files ops,
  match ref_inject_files ops batch files with
  | Some ops' => inject_files ops batch files = Ok ops'
  | None => is_err (inject_files ops batch files) = true
  end.
Proof. exact inject_files_is_reference. Qed.
Print Assumptions C18_code_is_reference.

Theorem C18_never_panics : forall ops batch files, is_panic (inject_files ops batch files) = false.
Proof. exact inject_files_never_panics. Qed.
Print Assumptions C18_never_panics.

(* What the reference does to one operation's variables: the path resolves to a position
   that held null; afterwards that position holds the file, every position that is not a
   prefix of it reads as before, and the containers on the way keep their keys / length. *)
Theorem C18_exactly_the_named_position : forall file j parts j',
  ref_apply file j parts = Some j' ->
  exists cp, resolve j parts = Some cp /\ cp <> [] /\
             get_c j cp = Some JNull /\
             get_c j' cp = Some file /\
             (is_leaf file = true -> forall cq, is_prefix cq cp = false -> get_c j' cq = get_c j cq) /\
             shape j' = shape j.
Proof. exact ref_apply_spec. Qed.
Print Assumptions C18_exactly_the_named_position.

(* ... and to the other operations of a batch: nothing. *)
Theorem C18_other_operations_unchanged : forall ops file batch path ops',
  ref_inject_path ops file batch path = Some ops' ->
  length ops' = length ops /\
  exists idx rest, ref_address batch path = Some (idx, rest) /\
                   forall i, i <> idx -> nth_error ops' i = nth_error ops i.
Proof. exact ref_inject_path_other_ops. Qed.
Print Assumptions C18_other_operations_unchanged.

(* non-vacuity: a batched request with nested objects and lists where the reference is
   defined, and one where it is not *)
Example C18_nonvacuous_ok :
  ref_inject_files
    [Some [("a", JNull)]; Some [("in", JObj [("files", JArr [JStr "x"; JObj [("f", JNull)]])])]]
    true [(JFile "0", ["1.variables.in.files.1.f"; "0.variables.a"])]
  = Some [Some [("a", JFile "0")]; Some [("in", JObj [("files", JArr [JStr "x"; JObj [("f", JFile "0")]])])]].
Proof. vm_compute. reflexivity. Qed.

Example C18_nonvacuous_err :
  ref_inject_files [Some [("a", JNull); ("b", JNull)]] false [(JFile "0", ["variables.a.b"])] = None
  /\ ref_inject_files [Some [("a", JArr [JNull])]] false [(JFile "0", ["variables.a.-1"])] = None
  /\ ref_inject_files [Some [("a", JNull)]] true [(JFile "0", ["1.variables.a"])] = None.
Proof. vm_compute. auto. Qed.

(* C13 — every fetch is issued exactly once and no hop is needless.
   Property theorems only.  Models: Gw/ExecLTS.v (one task per node of the realised call tree),
   Gw/Points.v (one realised point per parent object), Gw/Locate.v (placement); proofs in
   Proofs/ExecLTSConserve.v, FindProofs.v, RouteProofs.v.  The number of requests each service
   receives, the points spawned per step and the effect counters of mutations are compared on every
   generated request by the correspondence run (oracle c13_holds). *)
From Coq Require Import List Arith Bool Permutation String ZArith.
From GW Require Import Base.Res Base.GoStr Base.Json Gql.Syntax Gw.ExecLTS Gw.Points Gw.Locate
     Gw.Plan Proofs.ExecLTSProofs Proofs.ExecLTSConserve Proofs.CodecProofs Proofs.PointsProofs Proofs.FindProofs Proofs.RouteProofs Proofs.PlanProofs Gw.Plan2 Proofs.Plan2Proofs Proofs.SingleService Proofs.PlanTotal.
Import ListNotations.
Open Scope string_scope.
Open Scope list_scope.

(* For every call tree (one node per root step and per (dependent step, realised insertion point))
   and every schedule: when Execute returns, the calls issued are exactly the nodes of the tree,
   each exactly once -- no root field is sent twice (a mutation is never duplicated), no dependent
   fetch is repeated or skipped. *)
Theorem C13_each_fetch_exactly_once : forall rcap, 0 < rcap -> forall roots s,
  reach rcap roots s -> ret s = true -> Permutation (called s) (idsl roots).
Proof.
  intros rcap Hc roots s Hr Ht. destruct (returned_after_all rcap Hc roots s Hr Ht) as (_ & _ & A & _). exact A.
Qed.
Print Assumptions C13_each_fetch_exactly_once.

(* ... and never more at any moment of any schedule: a call is issued only by the PCall step of a
   task, and the tasks of a reachable state together with the calls already issued always count
   each node of the tree exactly once *)
Theorem C13_never_twice_on_the_way : forall rcap roots s x,
  reach rcap roots s ->
  cnt x (idsl roots) = cnt x (flat_map uncalled (tasks s)) + cnt x (called s).
Proof. intros rcap roots s x Hr. destruct (reach_conserve rcap roots s Hr x) as (A & _). exact A. Qed.
Print Assumptions C13_never_twice_on_the_way.

(* one realised point per parent object: the points a dependent step is spawned at pairwise part
   ways, so no parent object is fetched for twice *)
Theorem C13_one_point_per_parent_object : forall B, (Z.of_nat B <= int64_max)%Z ->
  forall targets sels chunk branch pts,
  Forall clean_key targets -> Forall (fun k => k <> "") targets -> lists_le B (JObj chunk) ->
  find_points targets sels chunk branch = Ok pts ->
  exists sufs, pts = map (app branch) sufs /\ ForallOrdPairs diverge sufs.
Proof.
  intros B HB targets sels chunk branch pts Hk Hn Hl H.
  destruct (find_points_spec B HB _ _ _ _ _ Hk Hn Hl H) as [sufs (A & _ & D)]. exists sufs. auto.
Qed.
Print Assumptions C13_one_point_per_parent_object.

(* one step serves all the fields of a location at a level: the planner's grouping of a selection
   set never has two groups for one location (so never two steps where one would do) *)
Theorem C13_one_group_per_location : forall prios urls sels ptype ploc gs,
  group prios urls ptype ploc sels [] = Ok gs -> NoDup (map fst gs).
Proof. exact group_levels_are_disjoint. Qed.
Print Assumptions C13_one_group_per_location.

(* ... the same in the full planner model, for every mix of fields, inline fragments and named
   fragment spreads, whatever the step's and the document's fragment definitions are *)
Theorem C13_one_group_per_location_with_fragments : forall prios urls planfrags sels sfrags ptype ploc r,
  group2 prios urls planfrags sfrags ptype ploc sels [] [] = Ok r -> NoDup (map fst (fst r)).
Proof. intros prios urls planfrags sels sfrags ptype ploc r. apply group2_one_per_location. constructor. Qed.
Print Assumptions C13_one_group_per_location_with_fragments.

(* no needless hop: with no priorities configured, a selection all of whose fields are offered by
   the location it starts at (the service answering the root field) is planned entirely there *)
Theorem C13_no_needless_hop : forall urls ft frags L fuel ptype path sels l,
  route_sels fuel [] urls ft frags ptype L path sels = Ok l ->
  Forall (offered_at urls L) l -> Forall (fun r => r_loc r = L) l.
Proof. intros urls ft frags L fuel ptype path sels l. apply route_sels_single_hop. Qed.
Print Assumptions C13_no_needless_hop.

Example C13_nonvacuous :
  let urls := [("Query.user", ["A"]); ("User.name", ["A"; "B"]); ("User.id", ["A"; "B"])] in
  exists l, route_sels 3 [] urls [("Query.user", "User")] [] "Query" "A" []
              [Field "user" "user" [] [] [Field "name" "name" [] [] []]] = Ok l /\ map r_loc l = ["A"; "A"].
Proof. eexists. split; vm_compute; reflexivity. Qed.

(* No needless hop, for every step the planner queues, at any depth and for every priority list:
   the selection a dependent step is given is planned at that step's own location when the step is
   built -- its grouping makes no group for another location, so the step does not bounce what it
   was sent to fetch (the chooser is idempotent, C20).  Over the planner model Gw/Plan.v. *)
Theorem C13_a_queued_step_keeps_what_it_was_given : forall prios urls ft fuel ptype ploc ip w sels kept pls q groups,
  extract prios urls ft fuel ptype ploc ip w sels = Ok (kept, pls) -> chain ptype w = ptype -> In q pls ->
  group prios urls (pl_ptype q) (pl_loc q) (pl_sels q) [] = Ok groups ->
  forall l ss, In (l, ss) groups -> l = pl_loc q.
Proof. exact queued_step_keeps_its_selection. Qed.
Print Assumptions C13_a_queued_step_keeps_what_it_was_given.

(* A query whose fields are all available from the service answering its root fields is planned
   as ONE step at that service, holding the client's selection unchanged (the gateway's own step
   sends nothing): for every operation, at every depth and through inline fragments, whenever the
   chooser places every field at A -- from the gateway at the top and from A below. *)
Theorem C13_single_service_single_step :
  forall prios urls ft A, A <> "" ->
  forall n root s r,
  Forall (top_at prios urls A root) (s :: r) -> Forall (at1 prios urls ft A n root) (s :: r) ->
  plan_operation prios urls ft (S (S n)) root (s :: r) =
  Ok (PStep "" root [] [id_field] [PStep A root [] (s :: r) []]).
Proof. intros prios urls ft A HA n root s r. exact (single_service_plan prios urls ft A HA n root s r). Qed.
Print Assumptions C13_single_service_single_step.

(* C08 — planning is total: always returns, with a plan for every valid query.
   Property theorems only.  Model: Gw/PlanLTS.v (generatePlans as a work list over the step tree of
   a planning run); proofs in Proofs/PlanLTSProofs.v.  The model has this shape -- one loop, no
   goroutine, channel or wait group, steps added only by appending to the list the loop drains --
   exactly as long as the regenerated skeletons of generatePlans and extractSelection equal the
   ones it was written from (coq/obligations/Obl_C08.v).  That validation of the client's document
   returns, and that a valid document never makes a step fail to build, is decided on every
   generated case by the correspondence run (watchdog, goroutine census, oracle c08_holds). *)
From Coq Require Import List Arith Bool.
From GW Require Import Base.Res Gw.PlanLTS Proofs.PlanLTSProofs.
Import ListNotations.

(* For every step tree -- any number of cross-service branch points inside one step, any depth --
   the loop returns: with all steps built, each exactly once, when no step fails to build ... *)
Theorem C08_every_step_is_built_once : forall t,
  pfails t = false -> plan_loop (S (psize t)) [t] 0 = Ok (psize t).
Proof. intros t H. apply (proj1 (plan_one_operation t)). exact H. Qed.
Print Assumptions C08_every_step_is_built_once.

(* ... and otherwise with an error; it is never stuck and never out of room, whatever the tree *)
Theorem C08_planning_always_returns : forall fuel steps built,
  psizes steps < fuel -> is_panic (plan_loop fuel steps built) = false.
Proof. exact plan_loop_total. Qed.
Print Assumptions C08_planning_always_returns.

Theorem C08_error_only_if_a_step_fails : forall fuel steps built,
  psizes steps < fuel -> is_err (plan_loop fuel steps built) = true -> existsb pfails steps = true.
Proof. exact plan_loop_error_only_if_a_step_fails. Qed.
Print Assumptions C08_error_only_if_a_step_fails.

(* a document of several operations is planned operation by operation, each with the same guarantee *)
Theorem C08_every_operation_is_planned : forall ops fuel,
  Forall (fun o => psize o < fuel) ops -> is_panic (plan_all fuel ops) = false.
Proof. exact plan_all_total. Qed.
Print Assumptions C08_every_operation_is_planned.

(* non-vacuity: 300 branch points in one step (the pinned tree's queue held 50) *)
Example C08_three_hundred_branch_points :
  let t := PNode false [PNode false (repeat (PNode false []) 300)] in
  plan_loop (S (psize t)) [t] 0 = Ok 302.
Proof. vm_compute. reflexivity. Qed.

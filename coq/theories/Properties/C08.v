(* C08 — planning is total: always returns, with a plan for every valid query.
   Property theorems only.  Model: Gw/PlanLTS.v (generatePlans as a work list over the step tree of
   a planning run); proofs in Proofs/PlanLTSProofs.v.  The model has this shape -- one loop, no
   goroutine, channel or wait group, steps added only by appending to the list the loop drains --
   exactly as long as the regenerated skeletons of generatePlans and extractSelection equal the
   ones it was written from (coq/obligations/Obl_C08.v).  That validation of the client's document
   returns, and that a valid document never makes a step fail to build, is decided on every
   generated case by the correspondence run (watchdog, goroutine census, oracle c08_holds). *)
From Coq Require Import String List Arith Bool.
From GW Require Import Base.Res Gql.Syntax Gw.Locate Gw.Plan Gw.PlanLTS Proofs.PlanLTSProofs Proofs.PlanTotal Gw.Plan2 Proofs.Plan2Total.
Import ListNotations.

(* For every step tree -- any number of cross-service branch points inside one step, any depth --
   the loop returns: with all steps built, each exactly once, when no step fails to build ... *)
Theorem C08_every_step_is_built_once : forall t,
  pfails t = false -> plan_loop (S (psize t)) [t] 0 = Ok (psize t).
Proof. intros t H. apply (proj1 (plan_one_operation t)). exact H. Qed.
Print Assumptions C08_every_step_is_built_once.

(* ... and otherwise with an error; it is never stuck and never out of room, whatever the tree *)
Theorem C08_planning_always_returns : forall fuel steps built,
  psizes steps < fuel -> is_panic (plan_loop fuel steps built) = false.
Proof. exact plan_loop_total. Qed.
Print Assumptions C08_planning_always_returns.

Theorem C08_error_only_if_a_step_fails : forall fuel steps built,
  psizes steps < fuel -> is_err (plan_loop fuel steps built) = true -> existsb pfails steps = true.
Proof. exact plan_loop_error_only_if_a_step_fails. Qed.
Print Assumptions C08_error_only_if_a_step_fails.

(* a document of several operations is planned operation by operation, each with the same guarantee *)
Theorem C08_every_operation_is_planned : forall ops fuel,
  Forall (fun o => psize o < fuel) ops -> is_panic (plan_all fuel ops) = false.
Proof. exact plan_all_total. Qed.
Print Assumptions C08_every_operation_is_planned.

(* The planner itself (Gw/Plan.v: groupSelectionSet, extractSelection and the queue of steps, as
   functions; documents without named fragment spreads) terminates on every document, routing
   table and priority list: its recursion is bounded by the nesting depth of the document.  The
   model counts down a fuel; this theorem says that fuel is never what stops it -- with two more
   than the document is deep, whatever it returns (a plan, or one of the errors the planner
   reports) is returned for another reason.  The argument is the one the code relies on without
   saying so: the chooser is idempotent (C20), so the selection a step is given is settled at the
   step's own location, and a settled step only queues steps cut from strictly deeper in the
   document; extractSelection descends one level of nesting per call. *)
Theorem C08_the_planner_terminates : forall prios urls ft fuel root sels,
  ldepth sels + 1 < fuel -> fuel_err (plan_operation prios urls ft fuel root sels) = false.
Proof. exact plan_operation_total. Qed.
Print Assumptions C08_the_planner_terminates.

Theorem C08_extraction_descends_one_level_per_call : forall prios urls ft fuel ptype ploc ip w sels,
  ldepth sels < fuel -> fuel_err (extract prios urls ft fuel ptype ploc ip w sels) = false.
Proof. exact extract_total. Qed.
Print Assumptions C08_extraction_descends_one_level_per_call.

(* Named fragment spreads.  In the full model (Gw/Plan2.v, the one compared with the implementation)
   extractSelection also recurses into the body of a spread fragment -- the step's own definition of
   that name when it has one, else the document's -- and that recursion leaves the document's
   nesting.  What bounds it is what validation guarantees and the Go code relies on without saying
   so: fragments do not spread each other in a cycle.  Stated as a rank R on fragment names (every
   spread inside a fragment's body names a fragment of smaller rank; D bounds the depth of the
   bodies): with more than  depth + r * (D + 1)  fuel, r above the ranks the selection spreads,
   extractSelection never stops for lack of fuel; what it keeps is no deeper than what it was given
   and spreads nothing new; and the definitions it leaves for the step are again parts of the
   document's (fine_env), so the next extraction of that step starts from the same premises. *)
Theorem C08_extraction_terminates_on_acyclic_fragments :
  forall prios urls ft planfrags (R : string -> nat) (D : nat), fine_env R D planfrags ->
  forall fuel sfrags ptype ploc ip w sels r,
    fine_env R D sfrags -> (forall m, In m (lspreads sels) -> R m < r) -> ldepth sels + r * (D + 1) < fuel ->
    fuel_err (extract2 prios urls ft planfrags fuel sfrags ptype ploc ip w sels) = false /\
    forall ks ps sf, extract2 prios urls ft planfrags fuel sfrags ptype ploc ip w sels = Ok (ks, ps, sf) ->
      fine_env R D sf /\ ldepth ks <= ldepth sels /\ (forall m, In m (lspreads ks) -> In m (lspreads sels)).
Proof. exact extract2_total. Qed.
Print Assumptions C08_extraction_terminates_on_acyclic_fragments.

(* non-vacuity: F spreads G, both cross services; ranks G = 0, F = 1; bodies at most 2 deep *)
Example C08_fragments_example :
  let urls : urlmap := [("Query.user", ["A"]); ("User.id", ["A"; "B"]); ("User.name", ["A"]); ("User.photo", ["B"]); ("User.friend", ["A"])] in
  let ft : ftypes := [("Query.user", "User"); ("User.friend", "User")] in
  let f n sub := Field n n [] [] sub in
  let frags := [{| f_name := "F"; f_tcond := "User"; f_dirs := []; f_sel := [f "name" []; f "friend" [Spread "G" []]] |};
                {| f_name := "G"; f_tcond := "User"; f_dirs := []; f_sel := [f "name" []; f "photo" []] |}] in
  let R := fun n => if String.eqb n "F" then 1 else 0 in
  fine_env R 2 frags /\
  (forall m, In m (lspreads [f "user" [Spread "F" []]]) -> R m < 2) /\
  match extract2 [] urls ft frags (ldepth [f "user" [Spread "F" []]] + 2 * (2 + 1) + 1) [] "Query" "A" [] [] [f "user" [Spread "F" []]] with
  | Ok (_, ps, sf) => List.length ps = 1 /\ List.length sf = 2
  | _ => False
  end.
Proof.
  split; [|split].
  - intros d [<-|[<-|[]]]; (split; [vm_compute; auto|]); intros m Hm; vm_compute in Hm.
    + destruct Hm as [<-|[]]. vm_compute. auto.
    + destruct Hm.
  - intros m Hm. vm_compute in Hm. destruct Hm as [<-|[]]. vm_compute. auto.
  - vm_compute. split; reflexivity.
Qed.

(* non-vacuity: a document five levels deep across three services, planned with exactly depth + 2 *)
Example C08_planner_example :
  let urls : urlmap := [("Query.user", ["A"]); ("User.id", ["A"; "B"; "C"]); ("User.name", ["A"]); ("User.friends", ["B"]);
                        ("User.photo", ["C"]); ("Photo.url", ["C"]); ("Photo.owner", ["C"])] in
  let ft : ftypes := [("Query.user", "User"); ("User.friends", "User"); ("User.photo", "Photo"); ("Photo.owner", "User")] in
  let f n sub := Field n n [] [] sub in
  let doc := [f "user" [f "name" []; f "friends" [Inline "User" [] [f "name" []; f "photo" [f "url" []; f "owner" [f "name" []]]]]]] in
  ldepth doc = 6 /\
  match plan_operation [] urls ft (ldepth doc + 2) "Query" doc with
  | Ok (PStep _ _ _ _ [PStep "A" _ _ _ [PStep "B" _ _ _ thens]]) => List.length thens = 2
  | _ => False
  end.
Proof. vm_compute. split; reflexivity. Qed.

(* non-vacuity: 300 branch points in one step (the pinned tree's queue held 50) *)
Example C08_three_hundred_branch_points :
  let t := PNode false [PNode false (repeat (PNode false []) 300)] in
  plan_loop (S (psize t)) [t] 0 = Ok 302.
Proof. vm_compute. reflexivity. Qed.

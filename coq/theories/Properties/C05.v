(* C05 — stitching does not depend on reply order or scheduling.
   Property theorems only; LTS in Gw/ExecLTS.v, proofs in Proofs/ExecLTSProofs.v and
   Proofs/ExecLTSConserve.v.  A schedule is any path of the LTS: it interleaves the step tasks
   (whose service calls may take arbitrarily long) with the collector. *)
From Coq Require Import List Arith Bool Permutation.
From GW Require Import Gw.ExecLTS Gw.ExecCheck Proofs.ExecLTSProofs Proofs.ExecLTSConserve Proofs.ExecLTSOrder.
Import ListNotations.

(* Whatever the schedule, when Execute returns it has stitched the same results and recorded the
   same errors: any two returned states reachable from the same call tree agree on both, up to
   order.  No reply is lost: each is stitched exactly once. *)
Theorem C05_same_results_on_every_schedule : forall rcap, 0 < rcap -> forall roots s1 s2,
  reach rcap roots s1 -> ret s1 = true -> reach rcap roots s2 -> ret s2 = true ->
  Permutation (ins s1) (ins s2) /\ Permutation (errs s1) (errs s2) /\ Permutation (called s1) (called s2).
Proof.
  intros rcap Hc roots s1 s2 H1 R1 H2 R2.
  destruct (returned_after_all rcap Hc roots s1 H1 R1) as (_ & _ & A1 & B1 & C1).
  destruct (returned_after_all rcap Hc roots s2 H2 R2) as (_ & _ & A2 & B2 & C2).
  split; [|split]; eapply Permutation_trans; eauto; apply Permutation_sym; assumption.
Qed.
Print Assumptions C05_same_results_on_every_schedule.

(* a single writer: the step tasks never touch the accumulated response or the error list; only
   the collector's step does *)
Theorem C05_single_writer : forall rcap, 0 < rcap -> forall s pre t post s',
  tasks s = pre ++ t :: post -> Inv s -> ret s = false -> In s' (task_steps rcap s pre t post) ->
  ins s' = ins s /\ errs s' = errs s.
Proof.
  intros rcap Hc s pre t post s' Ht HI Hr Hin.
  destruct (task_step_facts rcap Hc s pre t post s' Ht HI Hr Hin) as (_ & _ & _ & A & B). auto.
Qed.
Print Assumptions C05_single_writer.

(* The order of stitching: on every schedule, a step's result is stitched before the results of the
   steps that depend on it (a dependent is spawned only after its parent's result entered the FIFO
   result channel, and the single collector stitches in channel order).  Node ids are distinct. *)
Theorem C05_parent_stitched_before_child : forall rcap roots s p c,
  NoDup (idsl roots) -> reach rcap roots s -> In (p, c) (flat_map edges roots) ->
  In c (ins s) -> exists l1 l2, ins s = l1 ++ p :: l2 /\ In c l2.
Proof. intros rcap roots s p c Hnd Hr He Hc. exact (parent_stitched_first rcap roots Hnd s p c Hr He Hc). Qed.
Print Assumptions C05_parent_stitched_before_child.

(* ... and stitching at points that part ways commutes as far as any reader can tell: an insert
   changes no point diverging from its own (C01_nothing_else_touched / Proofs.PointsProofs.insert_frame),
   so results that are not ancestor and descendant may be stitched in either order.  What remains
   outside the proof: data races, a property of the Go runtime (-race in the thorough tier). *)

Example C05_nonvacuous :
  let t := [Node 0 false [Node 1 false [Node 3 true []]; Node 2 true []]; Node 4 false []] in
  let f := run_first 2 100 (init t) in
  let l := run_last 2 100 (init t) in
  ret f = true /\ ret l = true /\ ins f <> ins l /\ same_multiset (ins f) (ins l) = true /\
  same_multiset (errs f) [3; 2] = true /\ same_multiset (errs l) [2; 3] = true.
Proof. vm_compute. repeat split; try reflexivity; discriminate. Qed.

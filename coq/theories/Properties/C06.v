(* C06 — execution always terminates, after all its work, leaving nothing behind.
   Property theorems only; the executor protocol as an LTS in Gw/ExecLTS.v (written from the
   regenerated skeletons of Execute / executeStep), proofs in Proofs/ExecLTSProofs.v and
   Proofs/ExecLTSConserve.v.  All theorems hold for every realised call tree (any plan size, any
   list fan-out, any subset of failing calls), every channel capacity >= 1 and every schedule. *)
From Coq Require Import List Arith Bool Permutation.
From GW Require Import Gw.ExecLTS Proofs.ExecLTSProofs Proofs.ExecLTSConserve.
Import ListNotations.

(* it never blocks forever: a reachable state in which Execute has not returned has a successor *)
Theorem C06_no_deadlock : forall rcap, 0 < rcap -> forall roots s,
  reach rcap roots s -> ret s = false -> steps rcap s <> [].
Proof. intros rcap Hc roots s Hr. apply progress; [exact Hc|]. apply (reach_inv rcap Hc roots s Hr). Qed.
Print Assumptions C06_no_deadlock.

(* every schedule terminates: each step lowers a natural-number measure by exactly one, so a run of
   n steps from s has n <= measure s, and a run that cannot be extended ends with Execute returned *)
Theorem C06_every_schedule_terminates : forall rcap, 0 < rcap -> forall s n s',
  Inv s -> run rcap s n s' -> measure s = n + measure s' /\ (steps rcap s' = [] -> ret s' = true).
Proof.
  intros rcap Hc s n s' HI Hrun. destruct (run_length rcap Hc s n s' HI Hrun) as [E HI'].
  split; [exact E|]. intros Hend. apply (maximal_run_returns rcap Hc s n s' HI Hrun Hend).
Qed.
Print Assumptions C06_every_schedule_terminates.

(* it returns only after all its work: in a state where Execute has returned no task is left,
   nothing is queued, every node of the call tree was called exactly once and stitched exactly
   once, and the recorded errors are exactly the failed nodes *)
Theorem C06_returns_after_all_its_work : forall rcap, 0 < rcap -> forall roots s,
  reach rcap roots s -> ret s = true ->
  tasks s = [] /\ rch s = [] /\
  Permutation (called s) (idsl roots) /\ Permutation (ins s) (idsl roots) /\ Permutation (errs s) (failingl roots).
Proof. intros rcap Hc roots s. apply returned_after_all. exact Hc. Qed.
Print Assumptions C06_returns_after_all_its_work.

(* it returns once and nothing happens afterwards: a returned state has no successor *)
Theorem C06_nothing_after_return : forall rcap s, ret s = true -> steps rcap s = [].
Proof. intros rcap s H. unfold steps. rewrite H. reflexivity. Qed.
Print Assumptions C06_nothing_after_return.

(* non-vacuity: 12 failing leaves under one parent plus a deeper branch, capacity 10 (the shape
   that dead-locked the pinned tree): two different schedulers both return with everything done *)
From GW Require Import Gw.ExecCheck.
Definition ex_tree := [Node 0 false (map (fun i => Node i true []) (seq 1 12) ++ [Node 20 false [Node 21 true [Node 22 false []]]])].
Example C06_nonvacuous :
  let f := run_first 10 200 (init ex_tree) in
  let l := run_last 10 200 (init ex_tree) in
  ret f = true /\ ret l = true /\ length (errs f) = 13 /\ length (errs l) = 13 /\ length (ins l) = 16 /\
  same_multiset (ins f) (ins l) = true.
Proof. vm_compute. repeat split; reflexivity. Qed.

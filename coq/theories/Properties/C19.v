(* C19 — middlewares run exactly once, in order, on success and on failure.
   Property theorems only; model in Gw/Middleware.v, proofs in Proofs/MiddlewareProofs.v. *)
From Coq Require Import String List Bool Arith.
From GW Require Import Base.Res Base.Json Gw.Middleware Proofs.MiddlewareProofs.
Import ListNotations.
Open Scope list_scope.

(* For every middleware list (any mix of kinds, any of them failing), every data left by the
   scrubber and either outcome of the executor: the response middlewares that run are the
   registered ones, each once, in registration order, up to and including the first failing one;
   the error returned is that middleware's, else the executor's; the data returned is what the
   middlewares left (nothing when one of them failed). *)
Theorem C19_response_middlewares : forall mws scrubbed exec_failed,
  let o := gateway_finish mws false scrubbed exec_failed in
  let rs := response_mws mws in
  oc_log o = map rm_id (prefix_upto_fail rs) /\
  oc_err o = match first_failing rs with Some x => Some x | None => if exec_failed then Some 0 else None end /\
  oc_data o = match first_failing rs with Some _ => None | None => fold_left (fun d r => apply_edit r d) rs scrubbed end.
Proof. exact gateway_finish_spec. Qed.
Print Assumptions C19_response_middlewares.

Theorem C19_all_run_when_none_fails : forall l, filter rm_fails l = [] -> prefix_upto_fail l = l.
Proof. exact prefix_upto_fail_all. Qed.
Print Assumptions C19_all_run_when_none_fails.

Theorem C19_on_success_and_failure_alike : forall mws scrubbed,
  oc_log (gateway_finish mws false scrubbed true) = oc_log (gateway_finish mws false scrubbed false) /\
  oc_seen (gateway_finish mws false scrubbed true) = oc_seen (gateway_finish mws false scrubbed false) /\
  oc_data (gateway_finish mws false scrubbed true) = oc_data (gateway_finish mws false scrubbed false).
Proof. exact middlewares_run_on_failure_alike. Qed.
Print Assumptions C19_on_success_and_failure_alike.

Theorem C19_request_middlewares_on_every_call : forall mws n c,
  In c (call_request_mws mws n) -> c = request_mws mws.
Proof. exact request_mws_on_every_call. Qed.
Print Assumptions C19_request_middlewares_on_every_call.

Theorem C19_registration_order_kept : forall a b,
  response_mws (a ++ b) = response_mws a ++ response_mws b /\ request_mws (a ++ b) = request_mws a ++ request_mws b.
Proof. exact split_preserves_order. Qed.
Print Assumptions C19_registration_order_kept.

Example C19_nonvacuous :
  let r i f := MResp {| rm_id := i; rm_edit := Some ("k"%string, JNull); rm_fails := f |} in
  oc_log (gateway_finish [r 1 false; MReq 7; r 2 true; r 3 false] false (Some []) true) = [1; 2] /\
  oc_err (gateway_finish [r 1 false; MReq 7; r 2 true; r 3 false] false (Some []) true) = Some 3 /\
  oc_log (gateway_finish [r 1 false; MReq 7; r 3 false] false None true) = [1; 3] /\
  oc_err (gateway_finish [r 1 false; MReq 7; r 3 false] false None true) = Some 0 /\
  call_request_mws [r 1 false; MReq 7; MReq 8] 2 = [[7; 8]; [7; 8]].
Proof. vm_compute. repeat split. Qed.

(* C09 — incompatible definitions are rejected with an error, never guessed or a crash.
   Property theorems only; model in Gw/Merge.v, the property's list of incompatibilities
   ([incompatible]) in Gw/MergeCheck.v, proofs in Proofs/MergeProofs.v. *)
From Coq Require Import String List Bool.
From GW Require Import Base.Res Base.GoStr Gql.Schema Gw.Merge Gw.MergeCheck Proofs.MergeBasics Proofs.MergeProofs
  Proofs.MergeGroup Proofs.MergeWhole Proofs.MergeDirs Proofs.MergeOrder Proofs.MergeWitness.
Import ListNotations.
Open Scope string_scope.
Open Scope list_scope.

(* For every list of service schemas (any number of services, any order, any other content):
   if two definitions of one (non-introspection) name, anywhere in the list, are incompatible in
   the sense of the property -- different kind; a common field / interface field / input field
   with a different type, nullability, argument set, argument type or default; different enum
   values; different union members -- then the merge does not succeed.  The hypothesis is what
   gqlparser guarantees of every schema it loads (no duplicate field, argument, enum value or
   union member names) and is re-checked on every generated input of the correspondence run. *)
Theorem C09_incompatible_definitions_rejected : forall sources a b,
  Forall wf_def (flat_map s_types sources) ->
  In a (flat_map s_types sources) -> In b (flat_map s_types sources) ->
  df_name a = df_name b -> is_internal_name (df_name a) = false ->
  incompatible a b = true ->
  is_ok (merge_schemas sources) = false.
Proof. exact merge_schemas_rejects_incompatible. Qed.
Print Assumptions C09_incompatible_definitions_rejected.

(* ... and whatever the schemas are, the outcome is never a panic: with the theorem above,
   incompatible definitions yield an error. *)
Theorem C09_never_panics : forall sources, is_panic (merge_schemas sources) = false.
Proof. exact merge_schemas_never_panics. Qed.
Print Assumptions C09_never_panics.

(* Exactly: construction succeeds if and only if every two definitions of one type name and every
   two definitions of one directive pass all the comparisons mergeSchemas makes for their kind
   (compat, dcompat: Proofs/MergeGroup.v, Proofs/MergeDirs.v) ... *)
Theorem C09_construction_succeeds_exactly_on_pairwise_compatible_sources : forall srcs,
  sources_wfb srcs = true ->
  is_ok (merge_schemas srcs) = types_ok (flat_map s_types srcs) && dirs_ok (flat_map s_dirs srcs).
Proof. intros srcs Hw. apply merge_schemas_ok_iff. apply sources_wfb_sound. exact Hw. Qed.
Print Assumptions C09_construction_succeeds_exactly_on_pairwise_compatible_sources.

(* ... so a failure always has a culprit: two definitions of one name (not a "__" name) that do
   not pass them.  Construction never fails for another reason. *)
Theorem C09_every_failure_has_an_incompatible_pair : forall srcs,
  sources_wfb srcs = true -> is_ok (merge_schemas srcs) = false ->
  (exists a b, In a (flat_map s_types srcs) /\ In b (flat_map s_types srcs) /\ df_name a = df_name b /\
               is_internal_name (df_name a) = false /\ compat a b = false) \/
  (exists a b, In a (flat_map s_dirs srcs) /\ In b (flat_map s_dirs srcs) /\ dd_name a = dd_name b /\ dcompat a b = false).
Proof. intros srcs Hw. apply merge_failure_has_a_witness. apply sources_wfb_sound. exact Hw. Qed.
Print Assumptions C09_every_failure_has_an_incompatible_pair.

(* the same for every group of definitions of one name, in terms of the pairwise relation:
   a group merges only if all its members are pairwise "same signature" *)
Theorem C09_group_merges_only_if_pairwise_compatible : forall d ds out,
  merge_group d ds = Ok out -> Forall ok_def (d :: ds) ->
  ForallOrdPairs drel (d :: ds) /\ df_kind out = df_kind d /\ df_name out = df_name d.
Proof. exact group_ok_pairwise. Qed.
Print Assumptions C09_group_merges_only_if_pairwise_compatible.

Theorem C09_wf_is_decidable : forall l, forallb wf_defb l = true -> Forall wf_def l.
Proof. exact forallb_wf_defb_sound. Qed.
Print Assumptions C09_wf_is_decidable.

(* non-vacuity: three services; the first and the third disagree on the type of User.age while
   the second does not mention it; and the interface case that used to crash *)
Definition mk_field n t := {| fd_name := n; fd_desc := ""; fd_type := Some (TNamed t false); fd_args := []; fd_default := None; fd_dirs := [] |}.
Definition mk_def k n fs := {| df_kind := k; df_name := n; df_desc := ""; df_fields := fs; df_ifaces := []; df_members := []; df_enums := []; df_dirs := [] |}.
Definition ex_a := mk_def KObject "User" [mk_field "id" "ID"; mk_field "age" "Int"].
Definition ex_b := mk_def KObject "User" [mk_field "id" "ID"; mk_field "name" "String"].
Definition ex_c := mk_def KObject "User" [mk_field "age" "String"].
Definition ex_srcs := [{| s_types := [ex_a]; s_dirs := [] |}; {| s_types := [ex_b]; s_dirs := [] |}; {| s_types := [ex_c]; s_dirs := [] |}].
Example C09_nonvacuous :
  forallb wf_defb (flat_map s_types ex_srcs) = true /\ incompatible ex_a ex_c = true /\
  is_err (merge_schemas ex_srcs) = true /\
  is_ok (merge_schemas [{| s_types := [ex_a]; s_dirs := [] |}; {| s_types := [ex_b]; s_dirs := [] |}]) = true /\
  is_err (merge_schemas [{| s_types := [mk_def KInterface "I" [mk_field "a" "String"]]; s_dirs := [] |};
                         {| s_types := [mk_def KInterface "I" [mk_field "b" "String"]]; s_dirs := [] |}]) = true.
Proof. vm_compute. repeat split. Qed.

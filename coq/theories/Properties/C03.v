(* C03 — merging is a conservative union of the service schemas.
   Property theorems only; model in Gw/Merge.v, proofs in Proofs/MergeUnion.v and Proofs/UrlProofs.v. *)
From Coq Require Import String List Bool.
From GW Require Import Base.Res Base.GoStr Gql.Schema Gw.Merge Gw.MergeCheck
  Proofs.MergeBasics Proofs.MergeProofs Proofs.MergeUnion Proofs.UrlProofs Proofs.MergeWhole Proofs.MergeResult
  Proofs.MergeIfaces Proofs.MergePossible.
Import ListNotations.
Open Scope string_scope.
Open Scope list_scope.

(* Every definition of every service is in the merged schema under its name, with the same
   signature: same kind; every field it declares is there with the same type, arguments (names,
   types, defaults) and default; for interfaces, inputs, enums and unions the member sets are the
   same.  For all lists of (well-formed) definitions, i.e. all numbers and orders of services. *)
Theorem C03_merged_contains_every_source : forall all out d,
  merge_types all = Ok out -> Forall wf_def all -> In d all -> is_internal_name (df_name d) = false ->
  exists m, In m out /\ df_name m = df_name d /\ covers m d.
Proof. exact merge_types_contains. Qed.
Print Assumptions C03_merged_contains_every_source.

(* ... and nothing else: every field and every implemented interface of a merged object type is
   declared, with the same signature, by some service under that name. *)
Theorem C03_merged_contains_only_sources : forall all out m,
  merge_types all = Ok out -> Forall wf_def all -> In m out ->
  is_internal_name (df_name m) = false -> df_kind m = KObject ->
  (forall n f, find_field n (df_fields m) = Some f ->
     exists d g, In d all /\ df_name d = df_name m /\ find_field n (df_fields d) = Some g /\ fsame f g) /\
  (forall i, In i (df_ifaces m) <-> exists d, In d all /\ df_name d = df_name m /\ df_kind d = KObject /\ In i (df_ifaces d)).
Proof. exact merge_types_only. Qed.
Print Assumptions C03_merged_contains_only_sources.

(* Interface implementations, for objects and for interfaces (an interface may implement others):
   the merged definition of a name implements exactly the interfaces some service declares for it.
   (For interfaces this is the behaviour as repaired, DESIGN 6.5.) *)
Theorem C03_interface_implementations_are_the_union : forall all out k o,
  merge_types all = Ok out -> is_internal_name k = false -> find_def k out = Some o -> implementing (df_kind o) ->
  forall i, In i (df_ifaces o) <-> exists x, In x all /\ df_name x = k /\ In i (df_ifaces x).
Proof. exact merged_ifaces_exact. Qed.
Print Assumptions C03_interface_implementations_are_the_union.

(* Every name some service defines is defined in the merged schema, exactly once, and nothing
   else is: the merged type of a name is the merge of all the definitions of that name. *)
Theorem C03_merged_names_are_the_source_names : forall all out k,
  merge_types all = Ok out ->
  NoDup (map df_name out) /\ (find_def k out <> None <-> In k (map df_name all)).
Proof. intros all out k H. split; [exact (merge_types_names_nodup all out H)|exact (defined_iff all out k H)]. Qed.
Print Assumptions C03_merged_names_are_the_source_names.

(* The routing table computed from a list of (location, schema): a location is listed under a key
   exactly when its schema contributes that key; with introspection stripped, no "__"-prefixed type
   and no "__"-prefixed field of Query contributes a key ([def_keys]). *)
Theorem C03_routing_table_exact : forall sources strip key loc,
  In loc (assoc_l key (field_urls sources strip)) <->
  exists sch, In (loc, sch) sources /\ In key (flat_map (def_keys strip) (s_types sch)).
Proof. exact field_urls_exact. Qed.
Print Assumptions C03_routing_table_exact.

Example C03_nonvacuous :
  let a := {| df_kind := KObject; df_name := "User"; df_desc := ""; df_ifaces := ["Node"]; df_members := []; df_enums := []; df_dirs := [];
              df_fields := [{| fd_name := "id"; fd_desc := ""; fd_type := Some (TNamed "ID" true); fd_args := []; fd_default := None; fd_dirs := [] |}] |} in
  let b := {| df_kind := KObject; df_name := "User"; df_desc := ""; df_ifaces := []; df_members := []; df_enums := []; df_dirs := [];
              df_fields := [{| fd_name := "name"; fd_desc := ""; fd_type := Some (TNamed "String" false); fd_args := []; fd_default := None; fd_dirs := [] |}] |} in
  match merge_types [b; a] with
  | Ok [m] => map fd_name (df_fields m) = ["name"; "id"] /\ df_ifaces m = ["Node"]
  | _ => False
  end /\
  assoc_l "User.name" (field_urls [("A", {| s_types := [a]; s_dirs := [] |}); ("B", {| s_types := [b]; s_dirs := [] |})] true) = ["B"].
Proof. vm_compute. repeat split. Qed.

(* C15 — the HTTP endpoint never crashes and always speaks GraphQL-over-HTTP.
   Property theorems only; model in Gw/Http.v, proofs in Proofs/HttpProofs.v. *)
From Coq Require Import String List Bool Arith.
From GW Require Import Base.Res Base.Json Gw.Http Proofs.HttpProofs.
Import ListNotations.
Open Scope string_scope.

(* For every method, content type, JSON value (or undecodable bytes) as body, GET parameters and
   every behaviour of the planner/executor on the individual operations: the handler's outcome is
   a response, never a panic. *)
Theorem C15_handler_total : forall r outs, is_panic (handle r outs) = false.
Proof. exact handle_never_panics. Qed.
Print Assumptions C15_handler_total.

(* The status is 200, 400, 405 or 422.  It is 200 only if every operation was planned and run.
   Otherwise either nothing at all was run (unusable payload: a single error entry) or at least
   one operation was not run, and that operation's entry is an error entry. *)
Theorem C15_status_and_service_contact : forall r outs status body ran,
  handle r outs = Ok (status, body, ran) ->
  (status = 200 /\ Forall (fun b => b = true) ran) \/
  ((status = 400 \/ status = 405 \/ status = 422) /\
   (ran = [] \/ exists i, nth_error ran i = Some false)).
Proof. exact handle_status. Qed.
Print Assumptions C15_status_and_service_contact.

(* an operation that cannot be served gets an error entry, a 4xx code and is not run *)
Theorem C15_unservable_operation : forall op o c,
  snd (op_entry op o) = Some c ->
  (c = 400 \/ c = 422) /\ entry_errs (fst (op_entry op o)) = 1 /\ runs op o = false.
Proof. exact op_entry_status. Qed.
Print Assumptions C15_unservable_operation.

Example C15_nonvacuous :
  handle (RPostJSON "application/json" (Some JNull)) [] = Ok (422, BSingle (JNull, 1, None), []) /\
  handle (RPostJSON "application/json; charset=utf-8" (Some (JArr [JObj [("query", JStr "{a}")]; JNull]))) [ExecOk JNull] = Ok (422, BSingle (JNull, 1, None), []) /\
  handle (RPostJSON "text/html" (Some (JObj []))) [] = Ok (422, BSingle (JNull, 1, None), []) /\
  handle ROther [] = Ok (405, BSingle (JNull, 1, None), []) /\
  handle (RPostJSON "" (Some (JArr [JObj [("query", JStr "{a}")]; JObj [("query", JStr "{nope}")]; JObj []])))
         [ExecOk (JObj [("a", JStr "x")]); PlanError; PlanError]
    = Ok (422, BBatch [(JObj [("a", JStr "x")], 0, None); (JNull, 1, None); (JNull, 1, None)], [true; false; false]).
Proof. vm_compute. repeat split. Qed.

(* C16 — batched operations keep their order and equal their single-request answers.
   Property theorems only; model in Gw/Http.v, proofs in Proofs/HttpProofs.v. *)
From Coq Require Import String List Bool Arith Permutation.
From GW Require Import Base.Res Base.Json Gw.Http Proofs.HttpProofs.
Import ListNotations.

(* The batch as the handler runs it: one task per operation, each storing its response at its
   own index.  For every batch size k, every response function and every completion order that
   contains each index (in particular every permutation of 0..k-1): slot i holds the response of
   operation i. *)
Theorem C16_every_completion_order : forall (A : Type) (k : nat) (resp : nat -> A) (order : list nat),
  (forall i, i < k -> In i order) ->
  store_all k resp order = map (fun i => Some (resp i)) (seq 0 k).
Proof. exact @store_all_any_order. Qed.
Print Assumptions C16_every_completion_order.

Theorem C16_every_permutation : forall (A : Type) (k : nat) (resp : nat -> A) (order : list nat),
  Permutation order (seq 0 k) -> store_all k resp order = map (fun i => Some (resp i)) (seq 0 k).
Proof. exact @store_all_permutation. Qed.
Print Assumptions C16_every_permutation.

(* element i of the answer is computed from operation i and its own outcome only: the response
   list of a batch is the map of the single-operation entry over (operation, outcome) pairs *)
Theorem C16_entry_depends_on_its_operation_only : forall ops outs st es,
  respond ops true outs = Ok (st, BBatch es) ->
  es = map (fun p => fst (op_entry (fst p) (snd p))) (zip_outs ops outs).
Proof.
  intros ops outs st es H. unfold respond in H. injection H as _ <-. rewrite map_map. reflexivity.
Qed.
Print Assumptions C16_entry_depends_on_its_operation_only.

(* ... and a single operation answered alone gets exactly that entry *)
Theorem C16_single_is_same_entry : forall op o st e,
  respond [op] false [o] = Ok (st, BSingle e) -> e = fst (op_entry op o).
Proof. intros op o st e H. unfold respond in H. simpl in H. injection H as _ <-. reflexivity. Qed.
Print Assumptions C16_single_is_same_entry.

Example C16_nonvacuous :
  store_all 4 (fun i => i * 10) [2; 0; 3; 1] = [Some 0; Some 10; Some 20; Some 30] /\
  store_all 3 (fun i => i) [2; 2; 1; 0; 1] = [Some 0; Some 1; Some 2].
Proof. vm_compute. split; reflexivity. Qed.

(* C02 — every outbound query is valid for, and confined to, its target service.
   Property theorems only.  Models: Gw/Locate.v (placement of every field), Gw/Merge.v (the routing
   table), Gw/Vars.v (variable bookkeeping); proofs in Proofs/RouteProofs.v, UrlProofs.v, VarsProofs.v.
   The validity of each outbound document against the receiving service's own schema is decided
   on every realised call by the correspondence run (the service validates what it receives with
   gqlparser; oracle c02_holds in Gw/FedCheck.v). *)
From Coq Require Import String List Bool.
From GW Require Import Base.Res Base.GoStr Base.Json Gql.Syntax Gql.Schema Gw.Merge Gw.MergeCheck Gw.Locate Gw.Vars
     Gw.Plan Proofs.LocateProofs Proofs.RouteProofs Proofs.UrlProofs Proofs.VarsProofs Proofs.PlanProofs Gw.Plan2 Proofs.Plan2Sim Proofs.Plan2Confined.
Import ListNotations.
Open Scope string_scope.
Open Scope list_scope.

(* Confinement of fields.  For every document (fields, inline fragments, named fragments to any
   nesting), every routing table without empty entries and every priority list: each field is
   placed at a location that the routing table lists for that field on the type it is selected on. *)
Theorem C02_fields_confined : forall prios urls ft frags fuel ptype ploc path sels l,
  (forall key locs, assoc key urls = Some locs -> locs <> []) ->
  route_sels fuel prios urls ft frags ptype ploc path sels = Ok l ->
  Forall (confined urls) l.
Proof. intros prios urls ft frags fuel ptype ploc path sels l H. apply route_sels_confined. exact H. Qed.
Print Assumptions C02_fields_confined.

(* The same for the planner model that builds the steps themselves (Gw/Plan.v: groupSelectionSet,
   extractSelection, wrapSelectionSet and the step queue, for documents without named fragment
   spreads; compared step by step with the implementation's plans on every run): in every step of
   every plan, every field of the selection sent to the step's location is one the chooser places
   there, or the join id the planner adds -- all the way down, through inline fragments. *)
Theorem C02_every_step_is_confined : forall prios urls ft fuel root sels s,
  plan_operation prios urls ft fuel root sels = Ok s -> step_confined prios urls ft fuel s.
Proof. exact plan_confined. Qed.
Print Assumptions C02_every_step_is_confined.

(* The model compared with the implementation is the full one, Gw/Plan2.v (named fragment spreads
   and the per-step fragment definitions included).  On documents without named fragment spreads
   its plans are, step for step, those of Gw/Plan.v: the theorem above speaks about them. *)
Theorem C02_full_model_reduces_to_the_simple_one : forall prios urls ft fuel root sels s,
  nospreads sels -> plan_operation2 prios urls ft [] fuel root sels = Ok s ->
  plan_operation prios urls ft fuel root sels = Ok (erase s).
Proof. exact plan2_is_plan. Qed.
Print Assumptions C02_full_model_reduces_to_the_simple_one.

(* ... and on documents WITH named fragment spreads the full model is confined too.  A step sends its
   selection together with its own fragment definitions: for every step of every plan the full
   model returns there is a set G of fragment names such that every spread in the step's selection
   and in the bodies of the fragments of G names a fragment of G, every fragment of G is defined
   among the step's definitions, and every field of the selection and of those bodies -- read on
   the definition's own type condition -- is the join id or a field the chooser places at the
   step's location, all the way down.  No assumption on the document (Proofs/Plan2Confined.v: the
   definitions of a step evolve while it is built -- appended, their bodies replaced by what stays
   -- and a name keeps its type condition throughout). *)
Theorem C02_every_step_is_confined_with_named_fragments : forall prios urls ft planfrags fuel root sels s,
  plan_operation2 prios urls ft planfrags fuel root sels = Ok s -> step_confined2 prios urls ft s.
Proof. exact plan2_confined. Qed.
Print Assumptions C02_every_step_is_confined_with_named_fragments.

(* ... the table gateway.New builds has no empty entry ... *)
Theorem C02_routing_table_has_no_empty_entry : forall iloc sources internal qft key locs,
  assoc key (gateway_urls iloc sources internal qft) = Some locs -> locs <> [].
Proof. intros iloc sources internal qft key locs. apply ne_map_assoc. apply gateway_urls_ne. Qed.
Print Assumptions C02_routing_table_has_no_empty_entry.

(* ... and it lists a location under "Type.field" exactly when that location's schema declares the
   field: so a field is only ever sent to a service that declares it. *)
Theorem C02_table_lists_declaring_services : forall sources strip key loc,
  In loc (assoc_l key (field_urls sources strip)) <->
  exists sch, In (loc, sch) sources /\ In key (flat_map (def_keys strip) (s_types sch)).
Proof. exact field_urls_exact. Qed.
Print Assumptions C02_table_lists_declaring_services.

(* Variables.  When the planner's set for a step is the set of variables occurring in what the
   step sends (checked per step by the correspondence run, vars_agree) and the client's operation
   defines every variable it uses (validation), the step's query declares exactly the variables it
   uses -- plus id for a follow-up fetch, which the node(id: $id) wrapper uses. *)
Theorem C02_declares_exactly_what_it_uses : forall stepvars opvars used,
  (forall n, In n stepvars <-> In n used) -> (forall n, In n used -> In n opvars) ->
  (forall n, In n (step_declared stepvars opvars false) <-> In n used) /\
  (forall n, In n (step_declared stepvars opvars true) <-> In n used \/ n = "id").
Proof.
  intros stepvars opvars used H1 H2. split; [apply declared_is_used|apply declared_is_used_dependent]; assumption.
Qed.
Print Assumptions C02_declares_exactly_what_it_uses.

(* Values travel only for the step's variables and are the client's own, unchanged; a follow-up
   fetch additionally gets the parent object's id as id. *)
Theorem C02_values_are_the_clients : forall stepvars client,
  (forall k v, In (k, v) (step_passed stepvars client None) -> In k stepvars /\ jget k client = Some v) /\
  (forall id k v, jget k (step_passed stepvars client (Some id)) = Some v ->
     (k = "id" /\ v = JStr id) \/ (k <> "id" /\ In k stepvars /\ jget k client = Some v)).
Proof. intros stepvars client. split; [apply passed_root|intros id; apply passed_dependent]. Qed.
Print Assumptions C02_values_are_the_clients.

(* non-vacuity: a two-service table, a query crossing it *)
Example C02_nonvacuous :
  let urls := [("Query.user", ["A"]); ("User.name", ["A"; "B"]); ("User.photo", ["B"]); ("User.id", ["A"; "B"])] in
  let ft := [("Query.user", "User")] in
  exists l, route_sels 3 ["B"] urls ft [] "Query" "" []
              [Field "user" "user" [] [] [Field "name" "name" [] [] []; Field "photo" "photo" [] [] []]] = Ok l /\
            map r_loc l = ["A"; "B"; "B"] /\ Forall (confined urls) l.
Proof.
  eexists. split; [vm_compute; reflexivity|]. split; [reflexivity|].
  repeat constructor; eexists; (split; [vm_compute; reflexivity|cbn; auto]).
Qed.

(* non-vacuity for the full model: a fragment whose fields live at two services is planned (two
   steps, each with its own definition of F), and the theorem applies to that plan *)
Definition C02_example_plan : res fstep :=
  plan_operation2 [] [("Query.user", ["A"]); ("User.name", ["A"]); ("User.photo", ["B"]); ("User.id", ["A"; "B"])]
    [("Query.user", "User")]
    [{| f_name := "F"; f_tcond := "User"; f_dirs := []; f_sel := [Field "name" "name" [] [] []; Field "photo" "photo" [] [] []] |}]
    4 "Query" [Field "user" "user" [] [] [Spread "F" []]].

Example C02_fragments_nonvacuous :
  exists s, C02_example_plan = Ok s /\
    (match s with
     | FStep _ _ _ _ _ [FStep _ _ _ _ _ [FStep l _ _ sels fr _]] => l = "B" /\ sels = [Spread "F" []] /\ List.length fr = 1
     | _ => False
     end) /\
    step_confined2 [] [("Query.user", ["A"]); ("User.name", ["A"]); ("User.photo", ["B"]); ("User.id", ["A"; "B"])] [("Query.user", "User")] s.
Proof.
  destruct C02_example_plan as [s| |] eqn:E; try (vm_compute in E; discriminate).
  exists s. split; [reflexivity|]. split.
  - vm_compute in E. injection E as <-. repeat split; reflexivity.
  - eapply C02_every_step_is_confined_with_named_fragments. exact E.
Qed.

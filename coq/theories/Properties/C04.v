(* C04 — responses hold exactly the requested keys; join ids never leak or vanish.
   Property theorems only.  Model: Gw/Points.v (scrubInsertionIDs = find the realised points of a
   location, delete the field at each; executorMergeObject); proofs in Proofs/PointsProofs.v and
   FindProofs.v.  Which locations are scrubbed (generateScrubFields: the insertion points whose id
   the client did not ask for) is decided end to end by the correspondence run: the keys of every
   object of every response, with and without injected faults, are compared with the reference
   (oracle c04_partial_holds: equal data without errors, a sub-tree of it with errors). *)
From Coq Require Import String List Bool ZArith.
From GW Require Import Base.Res Base.GoStr Base.Json Gw.Points Gw.Plan Gw.Scrub Proofs.CodecProofs Proofs.PointsProofs Proofs.FindProofs Proofs.ScrubProofs
     Gql.Syntax Gql.Spec Proofs.StitchSound Proofs.JoinSound Proofs.StepJoin Proofs.StepScrub Gw.Locate Proofs.PlanTotal.
Import ListNotations.
Open Scope string_scope.
Open Scope list_scope.

(* Which places are scrubbed (Gw/Scrub.v: generateScrubFields, compared with every plan's
   FieldsToScrub on every run): only insertion points of the plan's own steps, none of them twice,
   and never one at which the client's (flattened) selection asks for the response key id -- a
   requested id, under whatever field or alias, is not among the keys to delete. *)
Theorem C04_only_unrequested_ids_are_scrubbed : forall fuel client root ps,
  scrub_fields fuel client root = Ok ps ->
  NoDup ps /\
  Forall (fun p => p <> [] /\ exists target, descend p client = Ok target /\ natural_id target = false) ps.
Proof. exact scrub_fields_sound. Qed.
Print Assumptions C04_only_unrequested_ids_are_scrubbed.

(* ... and none is forgotten: the insertion point of every step of the plan is among the scrubbed
   places unless the client asked for the key id there (the join id is injected exactly at the
   insertion points of dependent steps, so every injected id has its scrub path) *)
Theorem C04_every_step_point_is_scrubbed : forall fuel client root ps,
  scrub_fields fuel client root = Ok ps ->
  forall x c target, In x (thens_of root) -> substep c x -> ipoint_of c <> [] ->
    descend (ipoint_of c) client = Ok target -> natural_id target = false -> In (ipoint_of c) ps.
Proof. exact scrub_fields_complete. Qed.
Print Assumptions C04_every_step_point_is_scrubbed.

(* Where the planner injects the join id (Gw/Plan.v, extractSelection): the synthesised field
   (`id` without an alias) is added to the selection a step sends for an insertion point exactly
   when a step is queued for that point -- no injected id without a step that joins on it, no
   queued step without the id.  With the two theorems above: every injected id has its scrub path
   unless the client asked for `id` there.  (lnamed: every field the client wrote has an alias;
   gqlparser sets it to the name.) *)
Theorem C04_join_id_is_injected_exactly_where_a_step_is_queued : forall prios urls ft fuel ptype ploc ip w sels kept pls,
  extract prios urls ft fuel ptype ploc ip w sels = Ok (kept, pls) -> lnamed sels ->
  (lhas_id kept = true <-> exists q, In q pls /\ pl_ipoint q = ip).
Proof. exact id_injected_iff_step_queued. Qed.
Print Assumptions C04_join_id_is_injected_exactly_where_a_step_is_queued.

(* ... and at every depth of the selection a step sends: following response keys down from the
   step's insertion point, the synthesised id is selected at the end of a path exactly when a step
   is queued for the insertion point that path leads to. *)
Theorem C04_join_id_is_injected_exactly_at_the_points_of_queued_steps : forall prios urls ft fuel ptype ploc ip w sels kept pls,
  extract prios urls ft fuel ptype ploc ip w sels = Ok (kept, pls) -> lnamed sels ->
  forall rest, id_at rest kept = true <-> exists q, In q pls /\ pl_ipoint q = ip ++ rest.
Proof. exact id_at_iff_step_queued. Qed.
Print Assumptions C04_join_id_is_injected_exactly_at_the_points_of_queued_steps.

(* scrubbing a point removes exactly the named field of the object there: it is gone, and every
   other key of that object keeps its value *)
Theorem C04_scrub_removes_the_field_only : forall field response point response',
  scrub_at field response point = Ok response' ->
  exists m m', extract_value point response = Ok (JObj m) /\ extract_value point response' = Ok (JObj m') /\
               jget field m' = None /\ (forall k, k <> field -> jget k m' = jget k m).
Proof.
  intros field response point response' H. destruct (scrub_then_extract _ _ _ _ H) as [m [A B]].
  exists m, (jdel field m). split; [exact A|]. split; [exact B|]. split; [apply jget_jdel_eq|].
  intros k Hk. apply jget_jdel_neq. congruence.
Qed.
Print Assumptions C04_scrub_removes_the_field_only.

(* ... and nothing anywhere else: a requested id at any other place is never removed *)
Theorem C04_scrub_touches_nothing_else : forall field response point response' q,
  scrub_at field response point = Ok response' -> diverge point q ->
  extract_value q response' = extract_value q response.
Proof. exact scrub_frame. Qed.
Print Assumptions C04_scrub_touches_nothing_else.

(* the points scrubbed for one location are distinct objects: none is visited twice, and one
   object's scrub cannot disturb another's *)
Theorem C04_scrub_points_are_distinct : forall B, (Z.of_nat B <= int64_max)%Z ->
  forall location sels chunk pts,
  Forall clean_key location -> Forall (fun k => k <> "") location -> lists_le B (JObj chunk) ->
  find_points location sels chunk [] = Ok pts ->
  exists sufs, pts = map (app []) sufs /\ ForallOrdPairs diverge sufs.
Proof.
  intros B HB location sels chunk pts Hk Hn Hl H.
  destruct (find_points_spec B HB _ _ _ _ _ Hk Hn Hl H) as [sufs (A & _ & D)]. exists sufs. auto.
Qed.
Print Assumptions C04_scrub_points_are_distinct.

(* stitching never removes a key: what the client asked for and a step delivered stays, whatever
   arrives later at the same object *)
Theorem C04_stitching_never_drops_a_key : forall src tgt k,
  jget k tgt <> None -> jget k (merge_obj tgt src) <> None.
Proof. exact merge_obj_keeps. Qed.
Print Assumptions C04_stitching_never_drops_a_key.

Example C04_nonvacuous :
  let resp := JObj [("user", JObj [("id", JStr "1"); ("uid", JStr "1"); ("name", JStr "a")])] in
  scrub_location "id" [FS "user" false false []] resp ["user"] =
    Ok (JObj [("user", JObj [("uid", JStr "1"); ("name", JStr "a")])]).
Proof. vm_compute. reflexivity. Qed.

(* After a dependent step, against the reference semantics.  The points of the step pairwise part
   ways and each holds the reference answer to l1, the join id and l2 for its own object; the
   client asked for no key id in l1 or l2.  Then the scrubber succeeds at every point and leaves
   there exactly the reference answer to l1 and l2: the id the planner added is gone, every
   requested key is still there, and scrubbing one point changes nothing at the others. *)
Theorem C04_scrubbed_step_holds_the_requested_keys : forall w frags vars l1 l2,
  good (l1 ++ [id_sel]) -> Forall plain l2 -> ~ In "id" (map key_of l2) ->
  forall fuel ps os acc,
  ForallOrdPairs diverge ps -> Forall2 (holds_joined w frags vars l1 l2 fuel acc) ps os ->
  exists acc', scrub_points "id" acc ps = Ok acc' /\ Forall2 (holds_clean w frags vars l1 l2 fuel acc') ps os.
Proof. intros w frags vars l1 l2 G P N fuel. exact (step_scrubbed w frags vars l1 l2 G P N fuel). Qed.
Print Assumptions C04_scrubbed_step_holds_the_requested_keys.

(* C01 — federated execution is transparent: gateway data equals monolith data.
   Property theorems only.  The reference answer is Gql/Spec.v (GraphQL section 6 over the data
   graph); the gateway side is modelled in three parts -- where every field goes (Gw/Locate.v, the
   C20 and C02 theorems), how follow-up results are addressed and stitched (Gw/Points.v), and in
   which order the results arrive (Gw/ExecLTS.v, the C05/C06 theorems).  Proofs in
   Proofs/CodecProofs.v, PointsProofs.v, FindProofs.v.

   The end-to-end statement (C01_statement below) is decided on every generated federation, data
   graph and document by the correspondence run: the implementation's answer is compared with
   [exec] evaluated in Coq on the same world (oracle c01_holds, Gw/FedCheck.v).  Proved here, for
   all data, paths and ids: the stitching layer neither loses, misplaces nor duplicates. *)
From Coq Require Import String List Bool ZArith.
From GW Require Import Base.Res Base.GoStr Base.Json Gql.Syntax Gql.Spec Gw.Points Gw.FedCheck
     Gw.Locate Gw.Plan Proofs.CodecProofs Proofs.PointsProofs Proofs.FindProofs Proofs.PlanProofs Proofs.PlanCount Proofs.StitchSound Proofs.JoinSound Proofs.GroupSound Proofs.StepJoin Proofs.StepPoints
     Proofs.StepScrub Proofs.DeepPoints Proofs.ExactJoin Proofs.FedCanonical Proofs.PlanCanonical Proofs.FedTheorem
     Proofs.DeepScrub Proofs.FlattenPath Proofs.DeepFlatten Proofs.SingleService Proofs.FedTheoremObj Proofs.FedTheorem2 Proofs.FedTheoremCor
     Proofs.FedCanonicalMulti Proofs.PlanCanonicalMulti Proofs.FedTheoremMulti
     Gw.Locate Gw.Plan Gw.Scrub Gw.Fed.
Import ListNotations.
Open Scope string_scope.
Open Scope list_scope.

(* the full statement, kept visible: for a federation following the conventions, the observed
   outcome of every valid query is class 0 (answered) with exactly the reference data *)
Definition C01_statement (fuel : nat) (w : world) (frags : list fragdef) (vars : list (string * json))
           (root : string) (sels : list sel) (o : observed) : Prop :=
  c01_holds (exec fuel w frags vars None root sels) o = true.

(* Planning.  For every document without named fragment spreads (the planner model Gw/Plan.v,
   compared step by step with the implementation's plans on every run), every routing table and
   priority list: the steps of the plan together hold exactly the fields of the operation's
   selection, at every depth -- the planner drops none and duplicates none (the join ids it adds
   itself are not counted). *)
Theorem C01_plan_holds_every_field_once : forall prios urls ft fuel root sels s,
  plan_operation prios urls ft fuel root sels = Ok s -> scount s = fcounts sels.
Proof. exact plan_conserves_fields. Qed.
Print Assumptions C01_plan_holds_every_field_once.

(* Stitching is sound for the reference semantics.  For every data graph with atomic scalars, every
   object and every two selection sets in collected form (plain fields, each response key once per
   set -- what graphql.ApplyFragments leaves) whose common keys select the same field with the same
   arguments: merging the answer to the second into the answer to the first with
   executorMergeObject gives the answer to both together.  This is why one selection may be sent
   in parts to different services and stitched. *)
Theorem C01_stitching_is_sound : forall w frags vars,
  atomic_world w vars ->
  forall fuel o rt l1 l2, inw w o -> good l1 -> good l2 -> compat l1 l2 ->
  exec fuel w frags vars o rt (l1 ++ l2) =
  merge_value (Some (exec fuel w frags vars o rt l1)) (exec fuel w frags vars o rt l2).
Proof. intros w frags vars Hw fuel. exact (stitch_sound w frags vars Hw fuel). Qed.
Print Assumptions C01_stitching_is_sound.

Theorem C01_stitching_at_the_root : forall w frags vars,
  atomic_world w vars ->
  forall fuel o rt l1 l2, inw w o -> good l1 -> good l2 -> compat l1 l2 ->
  insert_object (exec (S fuel) w frags vars o rt l1) [] (exec (S fuel) w frags vars o rt l2) =
  Ok (exec (S fuel) w frags vars o rt (l1 ++ l2)).
Proof. intros w frags vars Hw fuel o rt l1 l2. exact (stitch_at_root w frags vars Hw fuel o rt l1 l2). Qed.
Print Assumptions C01_stitching_at_the_root.

(* Addressing.  A parent object is named by "<key>:<index>#<id>": for every response key (no ':'
   or '#'), every index below 2^63 and EVERY id text -- ids containing ':' '#' spaces or unicode
   included -- decoding gives back exactly the key, the index and the id. *)
Theorem C01_point_codec : forall key i id, clean_key key -> (Z.of_nat i <= int64_max)%Z ->
  get_point_data (with_id (enc_elem key i) id) = Ok {| pd_field := key; pd_index := Z.of_nat i; pd_id := id |} /\
  get_point_data (with_id key id) = Ok {| pd_field := key; pd_index := (-1)%Z; pd_id := id |}.
Proof. intros key i id Hk Hi. split; [apply decode_elem_id; assumption|apply decode_key_id; assumption]. Qed.
Print Assumptions C01_point_codec.

(* No value is attached to the wrong list element: the points found for a follow-up step all part
   ways pairwise (different elements of some list on the way), one per target key in length. *)
Theorem C01_each_parent_has_its_own_point : forall B, (Z.of_nat B <= int64_max)%Z ->
  forall targets sels chunk branch pts,
  Forall clean_key targets -> Forall (fun k => k <> "") targets -> lists_le B (JObj chunk) ->
  find_points targets sels chunk branch = Ok pts ->
  exists sufs, pts = map (app branch) sufs /\ Forall (fun s => length s = length targets) sufs /\
               ForallOrdPairs diverge sufs.
Proof. intros B HB targets sels chunk branch pts. apply (find_points_spec B HB). Qed.
Print Assumptions C01_each_parent_has_its_own_point.

(* No value is missing or misplaced by stitching: after inserting a result at a point, reading
   that point gives the object that was there merged with the result ... *)
Theorem C01_stitched_where_addressed : forall path target value target' src,
  path <> [] -> value = JObj src -> insert_object target path value = Ok target' ->
  exists tgt, extract_value path target = Ok (JObj tgt) /\ extract_value path target' = Ok (JObj (merge_obj tgt src)).
Proof. exact insert_then_extract. Qed.
Print Assumptions C01_stitched_where_addressed.

(* ... in which nothing the object had is dropped and everything that arrived is present ... *)
Theorem C01_merge_keeps_and_adds : forall src tgt k,
  (jget k tgt <> None -> jget k (merge_obj tgt src) <> None) /\
  (jget k src <> None -> jget k (merge_obj tgt src) <> None) /\
  (jget k src = None -> jget k (merge_obj tgt src) = jget k tgt).
Proof. intros src tgt k. split; [apply merge_obj_keeps|split; [apply merge_obj_adds|apply merge_obj_other]]. Qed.
Print Assumptions C01_merge_keeps_and_adds.

(* ... and no value is extra elsewhere: every point that parts ways with the one written reads
   exactly what it read before. *)
Theorem C01_nothing_else_touched : forall path target value target' q,
  path <> [] -> insert_object target path value = Ok target' -> diverge path q ->
  extract_value q target' = extract_value q target.
Proof. exact insert_frame. Qed.
Print Assumptions C01_nothing_else_touched.

Example C01_nonvacuous :
  let data := [("users", JArr [JObj [("id", JStr "u:1#x")]; JNull; JObj [("id", JStr "2")]])] in
  find_points ["users"] [FS "users" true false []] data [] = Ok [["users:0#u:1#x"]; ["users:2#2"]] /\
  (exists t, insert_object (JObj data) ["users:2#2"] (JObj [("name", JStr "b")]) = Ok t /\
             extract_value ["users:2#2"] t = Ok (JObj [("id", JStr "2"); ("name", JStr "b")]) /\
             extract_value ["users:0#u:1#x"] t = Ok (JObj [("id", JStr "u:1#x")])) /\
  diverge ["users:0#u:1#x"] ["users:2#2"].
Proof.
  split; [vm_compute; reflexivity|]. split.
  - eexists. split; [vm_compute; reflexivity|]. split; vm_compute; reflexivity.
  - eapply dv_index; [vm_compute; reflexivity|vm_compute; reflexivity|discriminate].
Qed.

(* One join, end to end, against the reference semantics.  The accumulated response holds at a
   realised point p the answer to the parent step's selection -- l1 and the id the planner added --
   for an object o of the data graph whose id names it alone.  The executor reads the id at the
   point, asks node(id) for l2, takes the value under "node", stitches it in at p and the scrubber
   removes the id again.  Then p holds exactly the reference answer to l1 and l2 together for o:
   for every data graph with atomic scalars, every object, every depth of p and every l1, l2 in
   collected form that agree on common keys and do not themselves ask for id. *)
Theorem C01_one_join_is_sound : forall w frags vars,
  atomic_world w vars ->
  forall l1, good (l1 ++ [id_sel]) ->
  forall fuel o l2 p acc acc' acc'' m id ans node,
  find_obj (b_id o) (w_objs w) = Some o ->
  good l2 -> compat (l1 ++ [id_sel]) l2 -> p <> [] -> ~ In "id" (map key_of l2) ->
  extract_value p acc = Ok (exec (S (S fuel)) w frags vars (Some o) (b_type o) (l1 ++ [id_sel])) ->
  extract_value p acc = Ok (JObj m) -> jget "id" m = Some (JStr id) ->
  exec (S (S (S fuel))) w frags vars None "Query" [node_sel id l2] = JObj ans ->
  jget "node" ans = Some node ->
  insert_object acc p node = Ok acc' ->
  scrub_at "id" acc' p = Ok acc'' ->
  extract_value p acc'' = Ok (exec (S (S fuel)) w frags vars (Some o) (b_type o) (l1 ++ l2)).
Proof. intros w frags vars Hw l1 Hg. exact (join_and_scrub w frags vars Hw l1 Hg). Qed.
Print Assumptions C01_one_join_is_sound.

(* ... and before the scrubber runs, the point holds the answer to l1, id and l2 *)
Theorem C01_join_before_scrubbing : forall w frags vars,
  atomic_world w vars ->
  forall l1, good (l1 ++ [id_sel]) ->
  forall fuel o l2 p acc acc' m id ans node,
  find_obj (b_id o) (w_objs w) = Some o ->
  good l2 -> compat (l1 ++ [id_sel]) l2 -> p <> [] ->
  extract_value p acc = Ok (exec (S (S fuel)) w frags vars (Some o) (b_type o) (l1 ++ [id_sel])) ->
  extract_value p acc = Ok (JObj m) -> jget "id" m = Some (JStr id) ->
  exec (S (S (S fuel))) w frags vars None "Query" [node_sel id l2] = JObj ans ->
  jget "node" ans = Some node ->
  insert_object acc p node = Ok acc' ->
  extract_value p acc' = Ok (exec (S (S fuel)) w frags vars (Some o) (b_type o) ((l1 ++ [id_sel]) ++ l2)).
Proof. intros w frags vars Hw l1 Hg. exact (join_sound w frags vars Hw l1 Hg). Qed.
Print Assumptions C01_join_before_scrubbing.

(* One level of planning is transparent.  For every routing table and priority list, every data
   graph with atomic scalars, every object and every selection in collected form: the groups
   groupSelectionSet makes hold exactly the selection's fields; merging the answers to the groups
   with executorMergeObject gives the answer to all of them together; and that is the reference
   answer to the client's selection with its keys in another order. *)
Theorem C01_grouping_is_transparent : forall w frags vars,
  atomic_world w vars ->
  forall prios urls ptype ploc fuel o rt sels gs,
  inw w o -> good sels -> group prios urls ptype ploc sels [] = Ok gs ->
  Permutation.Permutation (all_sels gs) sels /\
  merge_all (JObj []) (map (fun g => exec (S (S fuel)) w frags vars o rt (snd g)) gs) =
    exec (S (S fuel)) w frags vars o rt (all_sels gs) /\
  exists m m', exec (S (S fuel)) w frags vars o rt (all_sels gs) = JObj m /\
               exec (S (S fuel)) w frags vars o rt sels = JObj m' /\ Permutation.Permutation m m'.
Proof. intros w frags vars Hw. exact (grouping_is_transparent w frags vars Hw). Qed.
Print Assumptions C01_grouping_is_transparent.

(* One dependent step over all its points.  The points of a step pairwise part ways and each
   holds the parent's answer (l1 and the join id) for an object named by its own id.  Then the
   executor's visits -- read the id, ask node(id) for l2, stitch -- all succeed, and afterwards
   every point holds the reference answer to l1, id and l2 together for its own object: a visit
   changes nothing at the other points. *)
Theorem C01_one_step_joins_every_point : forall w frags vars,
  atomic_world w vars ->
  forall l1 l2, good (l1 ++ [id_sel]) -> good l2 -> compat (l1 ++ [id_sel]) l2 ->
  forall fuel ps os acc,
  ForallOrdPairs diverge ps -> Forall2 (holds_parent w frags vars l1 fuel acc) ps os ->
  exists acc', join_all w frags vars l2 fuel ps acc = Ok acc' /\
               Forall2 (holds_joined w frags vars l1 l2 fuel acc') ps os.
Proof. intros w frags vars Hw l1 l2 G1 G2 C fuel. exact (step_is_sound_and_total w frags vars Hw l1 l2 G1 G2 C fuel). Qed.
Print Assumptions C01_one_step_joins_every_point.

(* From the parent's answer to the stitched result, below a list field.  The parent answered the
   list field k (a key without ':' or '#') with l1 and the join id, for fewer than 2^63 objects
   each named by its own id.  executorFindInsertionPoints returns one point "k:<i>#<id>" per
   element, the step's visits succeed, and afterwards every element holds the reference answer
   to l1, id and l2 together. *)
Theorem C01_step_below_a_list_field : forall w frags vars,
  atomic_world w vars ->
  forall l1 l2, good (l1 ++ [id_sel]) -> good l2 -> compat (l1 ++ [id_sel]) l2 ->
  forall fuel k, clean_key k -> k <> "" ->
  forall po rt args os nonnull subf,
  resolve w vars po rt (to_c (Field "" k args [] (l1 ++ [id_sel]))) = FList (map (fun o => FRef (b_id o)) os) ->
  Forall (fun o => find_obj (b_id o) (w_objs w) = Some o) os ->
  (Z.of_nat (length os) <= int64_max)%Z ->
  exists m ps acc',
    exec (S (S (S fuel))) w frags vars po rt [Field "" k args [] (l1 ++ [id_sel])] = JObj m /\
    find_insertion_points [k] [FS k true nonnull subf] m [] = Ok ps /\
    length ps = length os /\
    join_all w frags vars l2 fuel ps (JObj m) = Ok acc' /\
    Forall2 (holds_joined w frags vars l1 l2 fuel acc') ps os.
Proof.
  intros w frags vars Hw l1 l2 G1 G2 C fuel k Hk Hne po rt args os nonnull subf.
  exact (list_field_step_sound w frags vars Hw l1 l2 G1 G2 C fuel k Hk po rt args os nonnull subf Hne).
Qed.
Print Assumptions C01_step_below_a_list_field.

(* ... and below a field that answers one object: the point is "k#<id>" *)
Theorem C01_step_below_an_object_field : forall w frags vars,
  atomic_world w vars ->
  forall l1 l2, good (l1 ++ [id_sel]) -> good l2 -> compat (l1 ++ [id_sel]) l2 ->
  forall fuel k, clean_key k -> k <> "" ->
  forall m o nonnull subf,
  jget k m = Some (exec (S (S fuel)) w frags vars (Some o) (b_type o) (l1 ++ [id_sel])) ->
  find_obj (b_id o) (w_objs w) = Some o ->
  exists acc',
    find_insertion_points [k] [FS k false nonnull subf] m [] = Ok [[with_id k (b_id o)]] /\
    join_all w frags vars l2 fuel [[with_id k (b_id o)]] (JObj m) = Ok acc' /\
    holds_joined w frags vars l1 l2 fuel acc' [with_id k (b_id o)] o.
Proof.
  intros w frags vars Hw l1 l2 G1 G2 C fuel k Hk Hne m o nonnull subf.
  exact (object_step_sound w frags vars Hw l1 l2 G1 G2 C fuel k Hk m o nonnull subf Hne).
Qed.
Print Assumptions C01_step_below_an_object_field.

(* A dependent step at any depth.  The parent's selection is in collected form at every level of
   the path and selects the path's fields beside whatever else; at the end of the path it is l1
   with the join id.  The data has the declared shape: response keys that are GraphQL names, lists
   of fewer than 2^63 entries, nulls where the schema allows them, every reference naming an
   object.  Then executorFindInsertionPoints on the parent's reference answer returns one point
   per object at the end of the path, in the order of the answer; the step's visits all succeed;
   afterwards every point holds the reference answer to l1, id and l2 together for its own
   object. *)
Theorem C01_step_at_any_depth : forall w frags vars l1,
  good (l1 ++ [id_sel]) -> forall fuel,
  atomic_world w vars -> forall l2, good l2 -> compat (l1 ++ [id_sel]) l2 ->
  forall e r sels fsels po rt,
  pathsel l1 (e :: r) sels -> fpath (e :: r) fsels -> shaped w vars (e :: r) po rt ->
  exists m ps acc',
    exec (S (F fuel (length r))) w frags vars po rt sels = JObj m /\
    find_insertion_points (map pe_key (e :: r)) fsels m [] = Ok ps /\
    join_all w frags vars l2 fuel ps (JObj m) = Ok acc' /\
    Forall2 (holds_joined w frags vars l1 l2 fuel acc') ps (leaves w vars (e :: r) po rt).
Proof. intros w frags vars l1 G fuel Hw l2 G2 C. exact (deep_step_sound w frags vars l1 G fuel Hw l2 G2 C). Qed.
Print Assumptions C01_step_at_any_depth.

(* The canonical join as an equation between whole responses: from the reference answer to
   k { l1 id }, the points found, the step's visits and the scrubber give exactly the reference
   answer to k { l1 l2 }. *)
Theorem C01_canonical_join_is_exact : forall w frags vars,
  atomic_world w vars ->
  forall l1 l2, good (l1 ++ [id_sel]) -> good l2 -> compat (l1 ++ [id_sel]) l2 -> ~ In "id" (map key_of l2) ->
  forall fuel k, clean_key k ->
  forall po rt a nm args os nonnull subf,
  rkey a nm = k ->
  resolve w vars po rt (to_c (Field a nm args [] (l1 ++ [id_sel]))) = FList (map (fun o => FRef (b_id o)) os) ->
  Forall (fun o => find_obj (b_id o) (w_objs w) = Some o) os ->
  (Z.of_nat (length os) <= int64_max)%Z ->
  exists m ps acc',
    exec (S (S (S fuel))) w frags vars po rt [Field a nm args [] (l1 ++ [id_sel])] = JObj m /\
    find_insertion_points [k] [FS k true nonnull subf] m [] = Ok ps /\
    join_all w frags vars l2 fuel ps (JObj m) = Ok acc' /\
    scrub_points "id" acc' ps = Ok (exec (S (S (S fuel))) w frags vars po rt [Field a nm args [] (l1 ++ l2)]).
Proof.
  intros w frags vars Hw l1 l2 G1 G2 C N fuel k Hk.
  exact (canonical_join_exact w frags vars Hw l1 l2 G1 G2 C N fuel k Hk).
Qed.
Print Assumptions C01_canonical_join_is_exact.

(* The whole-path model equals the reference on the canonical federation join.  For every
   federation in which the root field goes to service A from the gateway and stays there, the
   scalar fields l1 below it stay at A and the scalar fields l2 go to B and stay there; every data
   graph with atomic scalars in which the root field, declared a list, answers fewer than 2^63
   objects named by their ids and of the step's parent type; every l1, l2 in collected form that
   agree on common keys, with no key id and no use of $id in l2, and a client that does not ask
   for id: planning (Gw/Plan.v), the calls, the insertion points, the follow-up fetches with the
   variable id bound, the stitching (Gw/Fed.v, Gw/Points.v), the scrub paths (Gw/Scrub.v) and the
   scrubber, composed as gateway_answer composes them, return exactly the reference answer. *)
Theorem C01_gateway_answers_the_canonical_join :
  forall prios urls ft sh w vars, atomic_world w vars ->
  forall rootT T t ka kn args l1 l2 nn locA locB os client target n,
  ka <> "" -> clean_key ka ->
  locA <> "" -> locA <> locB ->
  choose prios urls rootT kn "" = Ok locA -> choose prios urls rootT kn locA = Ok locA ->
  assoc (url_key rootT kn) ft = Some T ->
  Forall (at_loc prios urls T locA locA) l1 -> Forall (at_loc prios urls T locA locB) l2 ->
  Forall (at_loc prios urls T locB locB) l2 -> l2 <> [] ->
  shape_of (rootT ++ "." ++ kn) sh = Some (t, (true, nn)) ->
  good (l1 ++ [id_sel]) -> good l2 -> compat (l1 ++ [id_sel]) l2 ->
  ~ In "id" (map key_of l2) -> no_id_var l2 ->
  descend [ka] client = Ok target -> natural_id target = false ->
  resolve w vars None rootT (to_c (Field ka kn args [] (l1 ++ [id_sel]))) = FList (map (fun o => FRef (b_id o)) os) ->
  Forall (fun o => find_obj (b_id o) (w_objs w) = Some o) os ->
  (Z.of_nat (length os) <= int64_max)%Z ->
  Forall (fun o => type_matches w T (b_type o) = true) os ->
  Forall (fun o => flat_at w vars o l2) os ->
  gateway_answer (S (S (S n))) prios urls ft sh w vars rootT [Field ka kn args [] (l1 ++ l2)] client =
  Ok (exec (S (S (S n))) w [] vars None rootT [Field ka kn args [] (l1 ++ l2)]).
Proof.
  intros prios urls ft sh w vars Hw rootT T t ka kn args l1 l2 nn locA locB os client target n.
  exact (gateway_answers_canonical_join prios urls ft sh w vars Hw rootT T t ka kn args l1 l2 nn locA locB os client target n).
Qed.
Print Assumptions C01_gateway_answers_the_canonical_join.

(* ... with the executor's own input and the scrubber: the flattened selection is the model of
   graphql.ApplyFragments on the parent's selection under the shapes the schema declares; after the
   step and the scrubber every object at the end of the path holds exactly the reference answer to
   l1 and l2. *)
Theorem C01_step_at_any_depth_with_the_executors_input :
  forall w frags vars, atomic_world w vars ->
  forall l1 l2, good (l1 ++ [id_sel]) -> good l2 -> compat (l1 ++ [id_sel]) l2 -> ~ In "id" (map key_of l2) ->
  forall fuel sh f e r sels po rt,
  pathsel l1 (e :: r) sels -> typed_path sh rt (e :: r) -> length (e :: r) <= f -> shaped w vars (e :: r) po rt ->
  exists m ps acc' acc'',
    exec (S (F fuel (length r))) w frags vars po rt sels = JObj m /\
    find_insertion_points (map pe_key (e :: r)) (flatten f sh rt sels) m [] = Ok ps /\
    join_all w frags vars l2 fuel ps (JObj m) = Ok acc' /\
    scrub_points "id" acc' ps = Ok acc'' /\
    Forall2 (holds_clean w frags vars l1 l2 fuel acc'') ps (leaves w vars (e :: r) po rt).
Proof. exact deep_step_with_flattened_selection. Qed.
Print Assumptions C01_step_at_any_depth_with_the_executors_input.

(* Documents served by one service.  Every field of the operation -- at every depth, through
   inline fragments, whatever its arguments, directives, aliases or repeated keys -- is placed at
   service A: from the gateway at the top, from A below (n bounds the nesting).  Then the whole-path
   model answers exactly what the reference answers. *)
Theorem C01_single_service_documents_are_transparent :
  forall prios urls ft sh w vars A n root s r client,
  A <> "" ->
  Forall (top_at prios urls A root) (s :: r) -> Forall (at1 prios urls ft A n root) (s :: r) ->
  gateway_answer (S (S n)) prios urls ft sh w vars root (s :: r) client =
  Ok (exec (S (S n)) w [] vars None root (s :: r)).
Proof. exact single_service_transparent. Qed.
Print Assumptions C01_single_service_documents_are_transparent.

(* The canonical join when the root field answers one object ({ me { name photo } }). *)
Theorem C01_gateway_answers_the_canonical_join_on_one_object :
  forall prios urls ft sh w vars, atomic_world w vars ->
  forall rootT T t ka kn args l1 l2 nn locA locB o client target n,
  ka <> "" -> clean_key ka ->
  locA <> "" -> locA <> locB ->
  choose prios urls rootT kn "" = Ok locA -> choose prios urls rootT kn locA = Ok locA ->
  assoc (url_key rootT kn) ft = Some T ->
  Forall (at_loc prios urls T locA locA) l1 -> Forall (at_loc prios urls T locA locB) l2 ->
  Forall (at_loc prios urls T locB locB) l2 -> l2 <> [] ->
  shape_of (rootT ++ "." ++ kn) sh = Some (t, (false, nn)) ->
  good (l1 ++ [id_sel]) -> good l2 -> compat (l1 ++ [id_sel]) l2 ->
  ~ In "id" (map key_of l2) -> no_id_var l2 ->
  descend [ka] client = Ok target -> natural_id target = false ->
  resolve w vars None rootT (to_c (Field ka kn args [] (l1 ++ [id_sel]))) = FRef (b_id o) ->
  find_obj (b_id o) (w_objs w) = Some o ->
  type_matches w T (b_type o) = true ->
  flat_at w vars o l2 ->
  gateway_answer (S (S (S n))) prios urls ft sh w vars rootT [Field ka kn args [] (l1 ++ l2)] client =
  Ok (exec (S (S (S n))) w [] vars None rootT [Field ka kn args [] (l1 ++ l2)]).
Proof.
  intros prios urls ft sh w vars Hw rootT T t ka kn args l1 l2 nn locA locB o client target n.
  exact (gateway_answers_canonical_join_obj prios urls ft sh w vars Hw rootT T t ka kn args l1 l2 nn locA locB o client target n).
Qed.
Print Assumptions C01_gateway_answers_the_canonical_join_on_one_object.

(* The canonical join when the part that stays at the root field's service is any selection tree:
   nested objects and lists, inline fragments, arguments, directives (n bounds its nesting). *)
Theorem C01_gateway_answers_the_canonical_join_with_nested_selections :
  forall prios urls ft sh w vars, atomic_world w vars ->
  forall rootT T t ka kn args l1 l2 nn locA locB os client target n,
  ka <> "" -> clean_key ka ->
  locA <> "" -> locA <> locB ->
  choose prios urls rootT kn "" = Ok locA -> choose prios urls rootT kn locA = Ok locA ->
  assoc (url_key rootT kn) ft = Some T ->
  Forall (at1 prios urls ft locA n T) l1 -> Forall (at_loc prios urls T locA locB) l2 ->
  Forall (at_loc prios urls T locB locB) l2 -> l2 <> [] ->
  shape_of (rootT ++ "." ++ kn) sh = Some (t, (true, nn)) ->
  good (l1 ++ [id_sel]) -> good l2 -> compat (l1 ++ [id_sel]) l2 ->
  ~ In "id" (map key_of l2) -> no_id_var l2 ->
  descend [ka] client = Ok target -> natural_id target = false ->
  resolve w vars None rootT (to_c (Field ka kn args [] (l1 ++ [id_sel]))) = FList (map (fun o => FRef (b_id o)) os) ->
  Forall (fun o => find_obj (b_id o) (w_objs w) = Some o) os ->
  (Z.of_nat (length os) <= int64_max)%Z ->
  Forall (fun o => type_matches w T (b_type o) = true) os ->
  Forall (fun o => flat_at w vars o l2) os ->
  gateway_answer (S (S (S n))) prios urls ft sh w vars rootT [Field ka kn args [] (l1 ++ l2)] client =
  Ok (exec (S (S (S n))) w [] vars None rootT [Field ka kn args [] (l1 ++ l2)]).
Proof.
  intros prios urls ft sh w vars Hw rootT T t ka kn args l1 l2 nn locA locB os client target n.
  exact (gateway_answers_canonical_join_nested prios urls ft sh w vars Hw rootT T t ka kn args l1 l2 nn locA locB os client target n).
Qed.
Print Assumptions C01_gateway_answers_the_canonical_join_with_nested_selections.

(* The same with the routing premises reduced by the chooser's idempotence (C20): that the root
   field and l2 stay where the chooser put them need not be assumed. *)
Theorem C01_gateway_answers_the_canonical_join_as_routed :
  forall prios urls ft sh w vars, atomic_world w vars ->
  forall rootT T t ka kn args l1 l2 nn locA locB os client target n,
  ka <> "" -> clean_key ka ->
  locA <> "" -> locA <> locB ->
  choose prios urls rootT kn "" = Ok locA ->
  assoc (url_key rootT kn) ft = Some T ->
  Forall (at1 prios urls ft locA n T) l1 -> Forall (at_loc prios urls T locA locB) l2 -> l2 <> [] ->
  shape_of (rootT ++ "." ++ kn) sh = Some (t, (true, nn)) ->
  good (l1 ++ [id_sel]) -> good l2 -> compat (l1 ++ [id_sel]) l2 ->
  ~ In "id" (map key_of l2) -> no_id_var l2 ->
  descend [ka] client = Ok target -> natural_id target = false ->
  resolve w vars None rootT (to_c (Field ka kn args [] (l1 ++ [id_sel]))) = FList (map (fun o => FRef (b_id o)) os) ->
  Forall (fun o => find_obj (b_id o) (w_objs w) = Some o) os ->
  (Z.of_nat (length os) <= int64_max)%Z ->
  Forall (fun o => type_matches w T (b_type o) = true) os ->
  Forall (fun o => flat_at w vars o l2) os ->
  gateway_answer (S (S (S n))) prios urls ft sh w vars rootT [Field ka kn args [] (l1 ++ l2)] client =
  Ok (exec (S (S (S n))) w [] vars None rootT [Field ka kn args [] (l1 ++ l2)]).
Proof. exact gateway_answers_canonical_join_routed. Qed.
Print Assumptions C01_gateway_answers_the_canonical_join_as_routed.

(* Any number of services below the root field.  The selection tree l1 stays with the root
   field's service A; the groups of scalar fields d_1 ... d_N (N >= 1) go to N other, pairwise
   different services, one dependent step each, all hanging at [alias].  The planner returns that
   plan, every step's points are found in the root step's answer, the follow-up fetches are
   stitched into the same elements one step after the other, the scrub paths collapse to the one
   path, and the whole-path model returns exactly the reference answer. *)
Theorem C01_gateway_answers_the_join_over_many_services :
  forall prios urls ft sh w vars, atomic_world w vars ->
  forall rootT T t ka kn args l1 deps nn locA os client target n,
  ka <> "" -> clean_key ka -> locA <> "" ->
  choose prios urls rootT kn "" = Ok locA ->
  assoc (url_key rootT kn) ft = Some T ->
  Forall (at1 prios urls ft locA n T) l1 ->
  Forall (dep_ok prios urls T locA) deps -> deps <> [] -> NoDup (locA :: map fst deps) ->
  shape_of (rootT ++ "." ++ kn) sh = Some (t, (true, nn)) ->
  good ((l1 ++ [id_sel]) ++ all_of deps) ->
  Forall (fun d => no_id_var (snd d)) deps ->
  descend [ka] client = Ok target -> natural_id target = false ->
  resolve w vars None rootT (to_c (Field ka kn args [] (l1 ++ [id_sel]))) = FList (map (fun o => FRef (b_id o)) os) ->
  Forall (fun o => find_obj (b_id o) (w_objs w) = Some o) os ->
  (Z.of_nat (length os) <= int64_max)%Z ->
  Forall (fun o => type_matches w T (b_type o) = true) os ->
  Forall (fun d => Forall (fun o => flat_at w vars o (snd d)) os) deps ->
  gateway_answer (S (S (S n))) prios urls ft sh w vars rootT [Field ka kn args [] (l1 ++ all_of deps)] client =
  Ok (exec (S (S (S n))) w [] vars None rootT [Field ka kn args [] (l1 ++ all_of deps)]).
Proof.
  intros prios urls ft sh w vars Hw rootT T t ka kn args l1 deps nn locA os client target n.
  exact (gateway_answers_multi_service_join prios urls ft sh w vars Hw rootT T t ka kn args l1 deps nn locA os client target n).
Qed.
Print Assumptions C01_gateway_answers_the_join_over_many_services.

(* C20 — multi-homed fields are fetched by priority, then locality.
   Property theorems only; model in Gw/Locate.v, proofs in Proofs/LocateProofs.v. *)
From Coq Require Import String List Bool.
From GW Require Import Base.Res Base.GoStr Gql.Syntax Gw.Locate Proofs.LocateProofs.
Import ListNotations.
Open Scope string_scope.
Open Scope list_scope.

(* For every priority list, every non-empty set of declaring services and every enclosing
   location the chooser returns a declaring service that satisfies the rule: the gateway's own
   fields are answered by the gateway; otherwise the first applicable priority; else the
   enclosing object's service if it offers the field. *)
Theorem C20_chooser_meets_rule : forall prios possible parent,
  possible <> [] -> spec_loc prios possible parent (selectLocation prios possible parent).
Proof. exact chooser_meets_rule. Qed.
Print Assumptions C20_chooser_meets_rule.

(* ... and the rule leaves no freedom whenever one of its clauses applies. *)
Theorem C20_rule_determines : forall prios possible parent l1 l2,
  spec_loc prios possible parent l1 -> spec_loc prios possible parent l2 ->
  (In internal_loc possible \/ first_possible prios possible <> None \/ In parent possible) ->
  l1 = l2.
Proof. exact rule_determines. Qed.
Print Assumptions C20_rule_determines.

(* the executable form of the rule used as the oracle on the implementation's plans is the rule *)
Theorem C20_oracle_is_rule : forall prios possible parent l,
  spec_locb prios possible parent l = true <-> spec_loc prios possible parent l.
Proof. exact spec_locb_correct. Qed.
Print Assumptions C20_oracle_is_rule.

(* a field moved to location L is kept by L: re-planning it with L as the parent chooses L again *)
Theorem C20_chooser_idempotent : forall prios possible parent,
  selectLocation prios possible (selectLocation prios possible parent) = selectLocation prios possible parent.
Proof. exact chooser_idempotent. Qed.
Print Assumptions C20_chooser_idempotent.

(* The choice is the same however the field is written: a plain field gets the chooser's answer
   for (type it is selected on, name, enclosing location); an inline fragment and a named fragment
   spread contribute exactly what their bodies contribute when selected on their type condition. *)
Theorem C20_plain_field : forall prios urls ft frags fuel ptype ploc path alias name args dirs sub l,
  route (S fuel) prios urls ft frags ptype ploc path (Field alias name args dirs sub) = Ok l ->
  exists possible rest,
    url_for urls ptype name = Ok possible /\
    l = {| r_path := path ++ [rkey alias name]; r_name := name; r_tcond := ptype;
           r_loc := selectLocation prios possible ploc |} :: rest.
Proof. exact route_field. Qed.
Print Assumptions C20_plain_field.

Theorem C20_inline_fragment_transparent : forall prios urls ft frags fuel ptype ploc path tcond dirs sub,
  route (S fuel) prios urls ft frags ptype ploc path (Inline tcond dirs sub) =
  route_sels (S fuel) prios urls ft frags (if String.eqb tcond "" then ptype else tcond) ploc path sub.
Proof. exact route_inline. Qed.
Print Assumptions C20_inline_fragment_transparent.

Theorem C20_named_fragment_transparent : forall prios urls ft frags fuel ptype ploc path name dirs f,
  frag_for name frags = Some f ->
  route (S fuel) prios urls ft frags ptype ploc path (Spread name dirs) =
  route_sels fuel prios urls ft frags (f_tcond f) ploc path (f_sel f).
Proof. exact route_spread. Qed.
Print Assumptions C20_named_fragment_transparent.

(* non-vacuity: a field offered by A and B under an object fetched from B, written three ways,
   with and without a priority for A *)
Definition ex_urls : urlmap := [("Query.u", ["B"]); ("User.n", ["A"; "B"])].
Definition ex_ft : ftypes := [("Query.u", "User")].
Definition ex_frags := [{| f_name := "F"; f_tcond := "User"; f_dirs := []; f_sel := [Field "n" "n" [] [] []] |}].
Definition locs (r : res (list routed)) := match r with Ok l => map r_loc l | _ => [] end.
Example C20_nonvacuous :
  locs (route 3 [] ex_urls ex_ft ex_frags "Query" "" [] (Field "u" "u" [] [] [Field "n" "n" [] [] []])) = ["B"; "B"] /\
  locs (route 3 [] ex_urls ex_ft ex_frags "Query" "" [] (Field "u" "u" [] [] [Inline "User" [] [Field "n" "n" [] [] []]])) = ["B"; "B"] /\
  locs (route 3 [] ex_urls ex_ft ex_frags "Query" "" [] (Field "u" "u" [] [] [Spread "F" []])) = ["B"; "B"] /\
  locs (route 3 ["A"] ex_urls ex_ft ex_frags "Query" "" [] (Field "u" "u" [] [] [Inline "" [] [Field "n" "n" [] [] []]])) = ["B"; "A"] /\
  locs (route 3 ["A"] ex_urls ex_ft ex_frags "Query" "" [] (Field "u" "u" [] [] [Spread "F" []])) = ["B"; "A"].
Proof. vm_compute. repeat split. Qed.

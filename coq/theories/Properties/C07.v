(* C07 — failures are reported faithfully and stay contained.
   Property theorems only.  Models: Gw/ExecLTS.v (the executor as a transition system over the
   realised call tree, any subset of whose nodes fail), Gw/Points.v (stitching); proofs in
   Proofs/ExecLTSProofs.v, ExecLTSConserve.v, PointsProofs.v.  Panics, the payload classes
   (errors with or without data, node:null, wrong shapes) and the data returned are decided on
   every generated federation and fault assignment by the correspondence run (oracle c07_holds:
   no panic or hang, one error entry per failed call and none otherwise, data a sub-tree of the
   reference). *)
From Coq Require Import List Arith Bool Permutation String.
From GW Require Import Base.Res Base.Json Gw.ExecLTS Gw.ExecCheck Gw.Points Proofs.ExecLTSProofs Proofs.ExecLTSConserve Proofs.ErrFlatten Proofs.PointsProofs.
Import ListNotations.

(* For every call tree, every assignment of failures to its nodes and every schedule: when Execute
   returns, the errors recorded are exactly the failed calls -- each once, none invented, none
   lost -- so the list is empty exactly when nothing failed. *)
Theorem C07_errors_are_exactly_the_failures : forall rcap, 0 < rcap -> forall roots s,
  reach rcap roots s -> ret s = true -> Permutation (errs s) (failingl roots).
Proof.
  intros rcap Hc roots s Hr Ht. destruct (returned_after_all rcap Hc roots s Hr Ht) as (_ & _ & _ & _ & E). exact E.
Qed.
Print Assumptions C07_errors_are_exactly_the_failures.

Corollary C07_no_failure_no_error : forall rcap, 0 < rcap -> forall roots s,
  reach rcap roots s -> ret s = true -> failingl roots = [] -> errs s = [].
Proof.
  intros rcap Hc roots s Hr Ht Hf. pose proof (C07_errors_are_exactly_the_failures rcap Hc roots s Hr Ht) as P.
  rewrite Hf in P. apply Permutation_sym, Permutation_nil in P. exact P.
Qed.
Print Assumptions C07_no_failure_no_error.

(* The error list itself, not only which calls it speaks of.  A failed call comes back with a plain
   error or with a graphql.ErrorList of any number of entries; the collector's recordErr appends a
   plain error as one entry and a list entry by entry (execute.go, "flattening nested lists").
   What Execute returns is that fold over the payloads in the order the collector met them
   (returned_errors).  For every call tree, failure set, payloads and schedule it holds every entry
   of every failure exactly once and nothing else; the entries of one failure stay together, in
   their own order. *)
Theorem C07_every_entry_of_every_failure_is_returned : forall (E : Type) (payload : nat -> goerr E) rcap, 0 < rcap ->
  forall roots s, reach rcap roots s -> ret s = true ->
  Permutation (returned_errors E payload s) (flat_map (fun i => entries E (payload i)) (failingl roots)).
Proof. exact returned_errors_are_the_failures. Qed.
Print Assumptions C07_every_entry_of_every_failure_is_returned.

Theorem C07_error_lists_are_flattened_whole_and_in_order : forall (E : Type) (payload : nat -> goerr E) rcap, 0 < rcap ->
  forall roots s, reach rcap roots s -> ret s = true ->
  exists order, Permutation order (failingl roots) /\
                returned_errors E payload s = List.concat (map (fun i => entries E (payload i)) order).
Proof. exact returned_errors_keep_each_list. Qed.
Print Assumptions C07_error_lists_are_flattened_whole_and_in_order.

Theorem C07_number_of_entries : forall (E : Type) (payload : nat -> goerr E) rcap, 0 < rcap ->
  forall roots s, reach rcap roots s -> ret s = true ->
  List.length (returned_errors E payload s) = fold_right (fun i n => List.length (entries E (payload i)) + n) 0 (failingl roots).
Proof. exact count_of_entries. Qed.
Print Assumptions C07_number_of_entries.

(* failures never stop the others: every call of the tree is still issued and its result stitched,
   and Execute returns (no schedule deadlocks, however many calls fail) *)
Theorem C07_failures_do_not_stop_the_rest : forall rcap, 0 < rcap -> forall roots s,
  reach rcap roots s ->
  (ret s = false -> steps rcap s <> []) /\
  (ret s = true -> Permutation (called s) (idsl roots) /\ Permutation (ins s) (idsl roots)).
Proof.
  intros rcap Hc roots s Hr. split.
  - intros Hf. apply (progress rcap Hc); [apply (reach_inv rcap Hc roots); exact Hr|exact Hf].
  - intros Ht. destruct (returned_after_all rcap Hc roots s Hr Ht) as (_ & _ & A & B & _). auto.
Qed.
Print Assumptions C07_failures_do_not_stop_the_rest.

(* containment in the data: whatever a failed call's result is stitched as (or whether it is
   stitched at all), the objects at every point that parts ways with its insertion point keep what
   the successful calls put there *)
Theorem C07_data_elsewhere_intact : forall path target value target' q,
  path <> [] -> insert_object target path value = Ok target' -> diverge path q ->
  extract_value q target' = extract_value q target.
Proof. exact insert_frame. Qed.
Print Assumptions C07_data_elsewhere_intact.

Example C07_nonvacuous :
  let t := [Node 0 false [Node 1 true [Node 3 false []]; Node 2 false []]; Node 4 true []] in
  let f := run_first 2 200 (init t) in
  ret f = true /\ same_multiset (errs f) [1; 4] = true /\ same_multiset (ins f) [0; 1; 2; 3; 4] = true.
Proof. vm_compute. repeat split; reflexivity. Qed.

(* a run in which call 1 fails with a list of two entries and call 4 with a plain error: three
   entries are returned, the two of call 1 side by side *)
Example C07_entries_nonvacuous :
  let t := [Node 0 false [Node 1 true [Node 3 false []]; Node 2 false []]; Node 4 true []] in
  let f := run_first 2 200 (init t) in
  let payload := fun i => if Nat.eqb i 1 then ErrList nat [10; 11] else Plain nat (i * 100) in
  ret f = true /\ (returned_errors nat payload f = [10; 11; 400] \/ returned_errors nat payload f = [400; 10; 11]).
Proof. vm_compute. split; [reflexivity|]. first [left; reflexivity | right; reflexivity]. Qed.

(* C12 — the query-plan cache is transparent.
   Property theorems only; model in Gw/Cache.v, proofs in Proofs/CacheProofs.v.  The planner, the
   hash function and the TTL are parameters of every theorem; [text_of] is the text a key stands
   for in the history at hand, and a history is consistent when every request that carries a text
   carries the text of its key. *)
From Coq Require Import String List Bool ZArith.
From GW Require Import Base.Res Base.GoStr Gw.Cache Proofs.CacheProofs.
Import ListNotations.
Open Scope string_scope.

(* For every consistent history of requests and sweeps (sweeps at arbitrary times), starting from
   any cache satisfying the invariant (e.g. the empty one): every answer is the cache-less answer
   for the text of the key the request is served under -- or NotFound, exactly for a hash-only
   request whose hash is not cached at that moment -- and plans are handed back together with
   that key (the client's hash on a hit, else the client's hash or the sha256 of the text). *)
Theorem C12_history_transparent :
  forall (plan_t : Type) (plan : string -> res plan_t) (sha : string -> string) (ttl : Z) (text_of : string -> string),
  (forall q, sha q <> "") ->
  forall h c,
    Inv plan_t plan text_of c -> hist_consistent sha text_of h ->
    Inv plan_t plan text_of (fst (run plan_t plan sha ttl c h)) /\
    Forall2 (fun cr ak => answer_ok plan_t plan sha text_of (fst cr) (snd cr) (fst ak) /\
                          (forall p, fst ak = APlans _ p -> snd ak = eff_key plan_t sha (fst cr) (snd cr)))
            (caches_met plan_t plan sha ttl c h) (snd (run plan_t plan sha ttl c h)).
Proof. exact history_transparent. Qed.
Print Assumptions C12_history_transparent.

(* Whenever the sweep runs, an entry used within the TTL survives it unchanged. *)
Theorem C12_sweep_keeps_recent :
  forall (plan_t : Type) (ttl : Z) (c : cache plan_t) now k e,
  NoDup (map fst c) -> lookup plan_t k c = Some e -> (now - ttl <= e_last _ e)%Z ->
  lookup plan_t k (sweep plan_t ttl c now) = Some e.
Proof. intros plan_t ttl. exact (sweep_keeps_recent plan_t (fun _ => Err "") ttl (fun s => s)). Qed.
Print Assumptions C12_sweep_keeps_recent.

(* Concurrent lookups and sweeps, in any interleaving of Retrieve's atomic steps (Load / plan /
   LoadOrStore): the cache invariant is kept and every finished lookup holds the plans of the
   text its key stands for (never wrong, partial or foreign), NotFound only for a hash-only
   request, a planner error only when the planner rejects the text. *)
Theorem C12_concurrent_lookups :
  forall (plan_t : Type) (plan : string -> res plan_t) (sha : string -> string) (ttl : Z) (text_of : string -> string),
  (forall q, sha q <> "") ->
  forall sched c ts,
    Inv plan_t plan text_of c -> Forall (task_ok plan_t plan sha text_of) ts ->
    Inv plan_t plan text_of (fst (crun plan_t plan sha ttl c ts sched)) /\
    Forall (task_ok plan_t plan sha text_of) (snd (crun plan_t plan sha ttl c ts sched)).
Proof. exact concurrent_lookups_ok. Qed.
Print Assumptions C12_concurrent_lookups.

(* non-vacuity: the empty cache satisfies the invariant; a small history *)
Example C12_nonvacuous_inv : forall plan_t plan text_of, Inv plan_t plan text_of [].
Proof. intros. split; [constructor|split; [reflexivity|intros k e H; discriminate]]. Qed.

Example C12_nonvacuous_run :
  let plan q := if String.eqb q "bad" then Err "no" else Ok q in
  let sha q := ("#" ++ q)%string in
  let r q h := {| r_query := q; r_hash := h |} in
  snd (run string plan sha 10%Z []
        [Req (r "" "h1") 0; Req (r "{a}" "h1") 1; Req (r "" "h1") 2; Req (r "{b}" "") 3; Req (r "" "#{b}") 4;
         Req (r "bad" "h2") 5; Req (r "" "h2") 6; Sweep 30; Req (r "" "h1") 31]%Z)
  = [(ANotFound _, "h1"); (APlans _ "{a}", "h1"); (APlans _ "{a}", "h1"); (APlans _ "{b}", "#{b}"); (APlans _ "{b}", "#{b}");
     (APlanError _, "h2"); (ANotFound _, "h2"); (ANotFound _, "h1")].
Proof. vm_compute. reflexivity. Qed.

(* C11 — requests are isolated and plans are reusable.
   Property theorems only.  Proofs in Proofs/IsolationProofs.v over the executor LTS
   (Gw/ExecLTS.v).  The theorems have the plan as a parameter of the step relation and outside
   every state: that is the code's shape exactly as long as no function on the execution path
   stores through a plan, a step or anything else that outlives the request -- the regenerated
   write sets of coq/obligations/Obl_C11.v.  That concurrent and repeated executions on shared
   plans give what solitary executions on fresh plans give, that every outbound call carries only
   its own request's variables and context, and that the plans are unchanged afterwards is
   observed on every generated group of requests (oracle c11_holds, plans_unchanged). *)
From Coq Require Import List Arith Bool Permutation.
From GW Require Import Gw.ExecLTS Proofs.ExecLTSProofs Proofs.ExecLTSConserve Proofs.IsolationProofs.
Import ListNotations.

(* For any number of executions sharing a plan and every interleaving of their steps: each
   execution's part of the interleaved run is a run it could have made alone ... *)
Theorem C11_each_behaves_as_if_alone : forall (shared local : Type) (step : shared -> local -> list local) p inits ls,
  preach shared local step p inits ls -> Forall2 (reach1 shared local step p) inits ls.
Proof. exact interleaved_projects_to_solo. Qed.
Print Assumptions C11_each_behaves_as_if_alone.

(* ... and concurrency removes nothing either: every combination of solitary runs is an
   interleaved run *)
Theorem C11_every_solo_combination_is_possible : forall (shared local : Type) (step : shared -> local -> list local) p inits ls,
  Forall2 (reach1 shared local step p) inits ls -> preach shared local step p inits ls.
Proof. exact solo_runs_interleave. Qed.
Print Assumptions C11_every_solo_combination_is_possible.

(* For the executor: whatever the interleaving of N requests, a request that has returned issued
   exactly the calls of its own call tree, stitched exactly its own results and recorded exactly its
   own failures *)
Theorem C11_no_cross_talk : forall rcap, 0 < rcap -> forall trees ls,
  preach unit st (exec_step rcap) tt (map init trees) ls ->
  Forall2 (fun roots s => ret s = true ->
             Permutation (called s) (idsl roots) /\ Permutation (ins s) (idsl roots) /\
             Permutation (errs s) (failingl roots)) trees ls.
Proof. exact no_cross_talk. Qed.
Print Assumptions C11_no_cross_talk.

(* and no request can be starved by the others' states: one that has not returned can move *)
Theorem C11_every_request_can_proceed : forall rcap, 0 < rcap -> forall trees ls,
  preach unit st (exec_step rcap) tt (map init trees) ls ->
  Exists (fun s => ret s = false) ls -> exists ls', pstep unit st (exec_step rcap) tt ls ls'.
Proof. exact interleaved_progress. Qed.
Print Assumptions C11_every_request_can_proceed.

Example C11_nonvacuous :
  let t1 := [Node 0 false [Node 1 true []]] in
  let t2 := [Node 0 false []; Node 1 false []] in
  exists ls, preach unit st (exec_step 2) tt (map init [t1; t2]) ls /\ length ls = 2.
Proof. eexists. split; [apply pr_init|reflexivity]. Qed.

(* C14 — introspection tells the truth about the merged schema.
   Property theorems only.  Reference: Gw/Introspect.v, the specification's introspection as a
   function of the schema and the selection (written from the specification and the introspection
   types of the schema the gateway validates against); proofs in Proofs/IntrospectProofs.v.  The
   gateway's answers (internal.go's resolvers) are compared with it on every generated merged
   schema and selection (oracle c14_holds, Gw/IntrospectCheck.v). *)
From Coq Require Import String List Bool Arith.
From GW Require Import Base.Json Gql.Syntax Gql.Schema Gql.Spec Gw.Introspect Proofs.IntrospectProofs Proofs.IntrospectExact.
Import ListNotations.
Open Scope string_scope.
Open Scope list_scope.

(* "A schema rebuilt from the full introspection result accepts the same queries": what
   introspection says about the type of a field, argument or input field determines that type
   exactly, at every depth of list / non-null wrapping, as soon as the selection descends as deep
   as the type is wrapped (the canonical introspection query stops at seven levels; this holds for
   every depth). *)
Theorem C14_type_references_are_exact : forall isch frags vars t d,
  ty_defined (s_types (is_schema isch)) t -> wrappers t <= d ->
  ty_of_json (S d) (below isch frags vars (2 + d) t d) = Some t.
Proof. exact type_reference_round_trip. Qed.
Print Assumptions C14_type_references_are_exact.

(* the meta fields of a named type under the reference: kind and name are the definition's *)
Theorem C14_named_type_level : forall isch frags vars fuel df d,
  intro_type isch frags vars (S (S fuel)) (TDef df) (type_ref_sel d) =
  JObj ([("kind", JStr (kind_name (df_kind df))); ("name", JStr (df_name df))] ++
        match d with O => [] | S _ => [("ofType", JNull)] end).
Proof. exact level_named. Qed.
Print Assumptions C14_named_type_level.

(* wrappers answer their kind, no name, and the wrapped type under ofType *)
Theorem C14_wrapper_levels : forall isch frags vars fuel inner d,
  intro_type isch frags vars (S (S fuel)) (TNonNull inner) (type_ref_sel (S d)) =
    JObj [("kind", JStr "NON_NULL"); ("name", JNull); ("ofType", below isch frags vars (S fuel) inner d)] /\
  intro_type isch frags vars (S (S fuel)) (TListOf inner) (type_ref_sel (S d)) =
    JObj [("kind", JStr "LIST"); ("name", JNull); ("ofType", below isch frags vars (S fuel) inner d)].
Proof. intros. split; [apply level_nonnull|apply level_list]. Qed.
Print Assumptions C14_wrapper_levels.

(* What introspection says about a type is the type.  The answer to the full selection of a __Type
   (the FullType fragment of the canonical introspection query, type references followed to depth
   D) lists exactly the fields (those whose name does not start with "__"), their arguments with
   types and default values, the input fields, interfaces, enum values and possible types of the
   definition, deprecated ones included, in the definition's order ... *)
Theorem C14_full_type_answer_lists_exactly_the_definition : forall isch frags vars D d,
  intro_type isch frags vars (3 + D) (TDef d) (full_type_sel D) = full_type_json isch frags vars D d.
Proof. exact full_type_answer. Qed.
Print Assumptions C14_full_type_answer_lists_exactly_the_definition.

(* ... and reading it back gives the definition: kind, name, every field with its arguments
   (name, type, default value), type and deprecation flag, the input fields, the interfaces, the
   enum values, the possible types.  wf_type: the definition's type references name defined types
   and are wrapped at most D deep; its interfaces and possible types are defined. *)
Theorem C14_full_type_round_trip : forall isch frags vars D d,
  wf_type isch D d ->
  dec_type D (intro_type isch frags vars (3 + D) (TDef d) (full_type_sel D)) = Some (proj_type isch d).
Proof. exact full_type_round_trip. Qed.
Print Assumptions C14_full_type_round_trip.

(* The schema-level round trip: { __schema { types { ...FullType } } } read back is the list of
   the schema's type definitions, in order -- a schema rebuilt from the introspection result has
   the same types, fields, arguments, defaults, interfaces, enum values and possible types. *)
Theorem C14_schema_round_trip : forall isch frags vars D,
  Forall (wf_type isch D) (s_types (is_schema isch)) ->
  obind (field_of "types" (intro_schema isch frags vars (3 + D) [fld "types" (full_type_sel D)])) (dec_list (dec_type D)) =
  Some (map (proj_type isch) (s_types (is_schema isch))).
Proof. exact full_schema_round_trip. Qed.
Print Assumptions C14_schema_round_trip.

(* Directive definitions: name, locations, repeatability and arguments read back are the definition's. *)
Theorem C14_directive_round_trip : forall isch frags vars D d,
  Forall (fun a => wf_ref isch D (ad_type a)) (dd_args d) ->
  dec_dir D (intro_directive isch frags vars (2 + D) d (directive_sel D)) = Some (proj_dir isch d).
Proof. exact directive_round_trip. Qed.
Print Assumptions C14_directive_round_trip.

Example C14_nonvacuous :
  let user := {| df_kind := KObject; df_name := "User"; df_desc := ""; df_fields := []; df_ifaces := [];
                 df_members := []; df_enums := []; df_dirs := [] |} in
  let isch := {| is_schema := {| s_types := [user]; s_dirs := [] |}; is_desc := ""; is_query := "";
                 is_mutation := ""; is_subscription := ""; is_repeatable := []; is_possible := [] |} in
  let t := TList (TList (TNamed "User" true) false) true in
  ty_of_json 5 (below isch [] [] 6 t 4) = Some t.
Proof. vm_compute. reflexivity. Qed.

(* the round trip on a small schema: an object with an argument, a list type, an interface, an enum *)
Example C14_round_trip_nonvacuous :
  let f n t args := {| fd_name := n; fd_desc := ""; fd_type := Some t; fd_args := args; fd_default := None; fd_dirs := [] |} in
  let d k n fs ifs evs := {| df_kind := k; df_name := n; df_desc := ""; df_fields := fs; df_ifaces := ifs; df_members := [];
                             df_enums := evs; df_dirs := [] |} in
  let scalar n := d KScalar n [] [] [] in
  let node := d KInterface "Node" [f "id" (TNamed "ID" true) []] [] [] in
  let role := d KEnum "Role" [] [] [{| ev_name := "ADMIN"; ev_desc := ""; ev_dirs := [] |};
                                    {| ev_name := "GUEST"; ev_desc := ""; ev_dirs := [{| da_name := "deprecated"; da_args := [] |}] |}] in
  let user := d KObject "User" [f "id" (TNamed "ID" true) [];
                                f "friends" (TList (TNamed "User" true) false)
                                  [{| ad_name := "first"; ad_desc := ""; ad_type := Some (TNamed "Int" false);
                                      ad_default := Some {| gv_kind := 1; gv_str := "10" |}; ad_dirs := [] |}];
                                f "role" (TNamed "Role" false) []] ["Node"] [] in
  let isch := {| is_schema := {| s_types := [scalar "ID"; scalar "Int"; node; role; user]; s_dirs := [] |}; is_desc := "";
                 is_query := ""; is_mutation := ""; is_subscription := ""; is_repeatable := []; is_possible := [("Node", ["User"])] |} in
  obind (field_of "types" (intro_schema isch [] [] (3 + 2) [fld "types" (full_type_sel 2)])) (dec_list (dec_type 2)) =
  Some (map (proj_type isch) (s_types (is_schema isch))) /\
  map (fun p => List.length (pt_fields p)) (map (proj_type isch) (s_types (is_schema isch))) = [0; 0; 1; 0; 3].
Proof. vm_compute. split; reflexivity. Qed.

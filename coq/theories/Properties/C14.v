(* C14 — introspection tells the truth about the merged schema.
   Property theorems only.  Reference: Gw/Introspect.v, the specification's introspection as a
   function of the schema and the selection (written from the specification and the introspection
   types of the schema the gateway validates against); proofs in Proofs/IntrospectProofs.v.  The
   gateway's answers (internal.go's resolvers) are compared with it on every generated merged
   schema and selection (oracle c14_holds, Gw/IntrospectCheck.v). *)
From Coq Require Import String List Bool Arith.
From GW Require Import Base.Json Gql.Syntax Gql.Schema Gql.Spec Gw.Introspect Proofs.IntrospectProofs.
Import ListNotations.
Open Scope string_scope.
Open Scope list_scope.

(* "A schema rebuilt from the full introspection result accepts the same queries": what
   introspection says about the type of a field, argument or input field determines that type
   exactly, at every depth of list / non-null wrapping, as soon as the selection descends as deep
   as the type is wrapped (the canonical introspection query stops at seven levels; this holds for
   every depth). *)
Theorem C14_type_references_are_exact : forall isch frags vars t d,
  ty_defined (s_types (is_schema isch)) t -> wrappers t <= d ->
  ty_of_json (S d) (below isch frags vars (2 + d) t d) = Some t.
Proof. exact type_reference_round_trip. Qed.
Print Assumptions C14_type_references_are_exact.

(* the meta fields of a named type under the reference: kind and name are the definition's *)
Theorem C14_named_type_level : forall isch frags vars fuel df d,
  intro_type isch frags vars (S (S fuel)) (TDef df) (type_ref_sel d) =
  JObj ([("kind", JStr (kind_name (df_kind df))); ("name", JStr (df_name df))] ++
        match d with O => [] | S _ => [("ofType", JNull)] end).
Proof. exact level_named. Qed.
Print Assumptions C14_named_type_level.

(* wrappers answer their kind, no name, and the wrapped type under ofType *)
Theorem C14_wrapper_levels : forall isch frags vars fuel inner d,
  intro_type isch frags vars (S (S fuel)) (TNonNull inner) (type_ref_sel (S d)) =
    JObj [("kind", JStr "NON_NULL"); ("name", JNull); ("ofType", below isch frags vars (S fuel) inner d)] /\
  intro_type isch frags vars (S (S fuel)) (TListOf inner) (type_ref_sel (S d)) =
    JObj [("kind", JStr "LIST"); ("name", JNull); ("ofType", below isch frags vars (S fuel) inner d)].
Proof. intros. split; [apply level_nonnull|apply level_list]. Qed.
Print Assumptions C14_wrapper_levels.

Example C14_nonvacuous :
  let user := {| df_kind := KObject; df_name := "User"; df_desc := ""; df_fields := []; df_ifaces := [];
                 df_members := []; df_enums := []; df_dirs := [] |} in
  let isch := {| is_schema := {| s_types := [user]; s_dirs := [] |}; is_desc := ""; is_query := "";
                 is_mutation := ""; is_subscription := ""; is_repeatable := []; is_possible := [] |} in
  let t := TList (TList (TNamed "User" true) false) true in
  ty_of_json 5 (below isch [] [] 6 t 4) = Some t.
Proof. vm_compute. reflexivity. Qed.

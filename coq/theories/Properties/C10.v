(* C10 — merging does not depend on service order or on the run.
   Property theorems only; model in Gw/Merge.v, proofs in Proofs/MergeProofs.v, Proofs/MergeUnion.v. *)
From Coq Require Import String List Bool Permutation.
From GW Require Import Base.Res Base.GoStr Gql.Schema Gw.Merge Gw.MergeCheck
  Proofs.MergeBasics Proofs.MergeProofs Proofs.MergeUnion Proofs.DirEq Proofs.MergeSym
  Proofs.MergeGroup Proofs.MergeWhole Proofs.MergeDirs Proofs.MergeOrder Proofs.MergeResult
  Proofs.MergeIfaces Proofs.MergePossible.
Import ListNotations.
Open Scope string_scope.
Open Scope list_scope.

(* The resulting type system: for every two orders in which the definitions of a name are met and
   merge successfully, the results have the same kind, the same fields with the same signatures,
   the same implemented interfaces / enum values / union members (order of fields and
   descriptions aside).  Any number of definitions, any permutation. *)
Theorem C10_result_independent_of_order : forall d ds d' ds' o1 o2,
  merge_group d ds = Ok o1 -> merge_group d' ds' = Ok o2 ->
  Permutation (d :: ds) (d' :: ds') -> Forall ok_def (d :: ds) ->
  same_typesystem o1 o2.
Proof. exact group_result_order_independent. Qed.
Print Assumptions C10_result_independent_of_order.

(* Whether construction succeeds, first form (for the incompatibilities the property C09 lists).
   If some order of the services succeeds, no two definitions of one name are incompatible; that
   conclusion does not mention the order, so by C09 no order can fail because of such a pair.
   The full statement is C10_success_does_not_depend_on_service_order below. *)
Theorem C10_success_excludes_incompatibility_partial : forall all out a b,
  merge_types all = Ok out -> Forall wf_def all ->
  In a all -> In b all -> df_name a = df_name b -> is_internal_name (df_name a) = false ->
  incompatible a b = false.
Proof. exact merge_types_ok_no_incompatible. Qed.
Print Assumptions C10_success_excludes_incompatibility_partial.

(* Whether construction succeeds: the full statement.  For every list of services and every
   permutation of it, mergeSchemas succeeds on both or on neither.  The hypothesis is what GraphQL
   validation guarantees of every loaded source and is executable: field, argument, enum value and
   union member names distinct within a definition, argument names distinct within an applied
   directive, one answer per directive name to "is it built in".  The harness evaluates
   sources_wfb on the sources of every generated case (it is part of the agreement column), so the
   hypothesis is checked against what the loaders really produce.  The gateway's own names
   (__Schema, __Type, ...) that every loaded schema carries are covered: they are never compared. *)
Theorem C10_success_does_not_depend_on_service_order : forall srcs srcs' : list schema,
  Permutation srcs srcs' -> sources_wfb srcs = true ->
  is_ok (merge_schemas srcs) = is_ok (merge_schemas srcs').
Proof. intros srcs srcs' Hp Hw. apply merge_schemas_success_order_independent; [exact Hp|apply sources_wfb_sound; exact Hw]. Qed.
Print Assumptions C10_success_does_not_depend_on_service_order.

(* ... because success is a condition on unordered pairs: every two definitions of one type name
   are compatible, every two definitions of one directive are compatible. *)
Theorem C10_success_is_pairwise_compatibility : forall srcs,
  sources_wfb srcs = true ->
  is_ok (merge_schemas srcs) = types_ok (flat_map s_types srcs) && dirs_ok (flat_map s_dirs srcs).
Proof. intros srcs Hw. apply merge_schemas_ok_iff. apply sources_wfb_sound. exact Hw. Qed.
Print Assumptions C10_success_is_pairwise_compatibility.

(* The resulting types, for the whole list of definitions mergeSchemas sees: whichever of two
   orderings is merged, every name is defined in both results or in neither, and the two
   definitions have the same kind, fields, signatures, interfaces, values and members.  (Names
   starting with "__" keep the first definition met; every loader supplies the same ones.) *)
Theorem C10_resulting_types_do_not_depend_on_order : forall all all' out out' k,
  Permutation all all' -> Forall wf_def all -> is_internal_name k = false ->
  merge_types all = Ok out -> merge_types all' = Ok out' ->
  match find_def k out, find_def k out' with
  | Some a, Some b => same_typesystem a b
  | None, None => True
  | _, _ => False
  end.
Proof. exact merge_types_result_order_independent. Qed.
Print Assumptions C10_resulting_types_do_not_depend_on_order.

(* Interfaces implemented (objects and, as repaired, interfaces: DESIGN 6.5): the merged definition
   of a name implements the same interfaces whichever order the services come in. *)
Theorem C10_implemented_interfaces_do_not_depend_on_order : forall all all' out out' k a b,
  Permutation all all' -> Forall wf_def all -> is_internal_name k = false ->
  merge_types all = Ok out -> merge_types all' = Ok out' ->
  find_def k out = Some a -> find_def k out' = Some b -> implementing (df_kind a) ->
  forall i, In i (df_ifaces a) <-> In i (df_ifaces b).
Proof. exact merge_types_ifaces_order_independent. Qed.
Print Assumptions C10_implemented_interfaces_do_not_depend_on_order.

(* Possible types of abstract types and the interface implementations registered in the merged
   schema: the two tables of mergeSchemas' result hold the same entries for every ordering of the
   services.  types_wfb is executable (names distinct within a definition; only objects and
   interfaces list interfaces) and evaluated by the harness on the sources of every case. *)
Theorem C10_possible_types_and_implementations_do_not_depend_on_order : forall srcs srcs' m m' k v,
  Permutation srcs srcs' -> types_wfb srcs = true ->
  merge_schemas srcs = Ok m -> merge_schemas srcs' = Ok m' ->
  is_internal_name k = false -> is_internal_name v = false ->
  (In v (assoc_l k (m_possible m)) <-> In v (assoc_l k (m_possible m'))) /\
  (In v (assoc_l k (m_implements m)) <-> In v (assoc_l k (m_implements m'))).
Proof.
  intros srcs srcs' m m' k v Hp Hw. destruct (types_wfb_sound srcs Hw) as [A B].
  apply merged_tables_order_independent; assumption.
Qed.
Print Assumptions C10_possible_types_and_implementations_do_not_depend_on_order.

(* ... and the root operation types (schema.Query, .Mutation, .Subscription) are the same. *)
Theorem C10_root_operation_types_do_not_depend_on_order : forall srcs srcs' m m',
  Permutation srcs srcs' -> merge_schemas srcs = Ok m -> merge_schemas srcs' = Ok m' -> m_roots m = m_roots m'.
Proof. exact merged_roots_order_independent. Qed.
Print Assumptions C10_root_operation_types_do_not_depend_on_order.

(* Directive definitions: whichever order the definitions of one directive are met in, the merged
   directive has the same repeatability, the same locations (as a set) and the same arguments:
   names and types, and default values unless the directive is built in (mergeDirectives does not
   compare the defaults of @skip, @include, @deprecated on purpose: there the default shown is
   the first service's; every loader supplies the specification's). *)
Theorem C10_merged_directive_does_not_depend_on_order : forall b d ds d' ds' o1 o2,
  merge_dir_group d ds = Ok o1 -> merge_dir_group d' ds' = Ok o2 ->
  Permutation (d :: ds) (d' :: ds') -> Forall (DW b) (d :: ds) ->
  dd_name o1 = dd_name d /\ dd_name o2 = dd_name d' /\
  dd_repeatable o1 = dd_repeatable o2 /\ (forall x, In x (dd_locs o1) <-> In x (dd_locs o2)) /\
  argdefs_ok b (dd_args o1) (dd_args o2) = true.
Proof. exact dir_group_result_order_independent. Qed.
Print Assumptions C10_merged_directive_does_not_depend_on_order.

(* Applied directives (as repaired, see DESIGN 6.5): the n-th application of a directive is compared
   with the n-th application of that directive in the other list, and the outcome does not depend
   on which of the two definitions comes first -- also when a repeatable directive is applied
   several times.  (Argument names are unique within one application: GraphQL validation.) *)
Theorem C10_applied_directives_compared_symmetrically : forall l1 l2,
  args_wf l1 -> args_wf l2 -> dirlists_equal l1 l2 = true -> dirlists_equal l2 l1 = true.
Proof. exact dirlists_equal_sym. Qed.
Print Assumptions C10_applied_directives_compared_symmetrically.

Example C10_repeated_directives :
  let tag v := {| da_name := "tag"; da_args := [("name", Some {| gv_kind := 0; gv_str := v |})] |} in
  dirlists_equal [tag "a"; tag "a"] [tag "a"; tag "b"] = false /\ dirlists_equal [tag "a"; tag "b"] [tag "a"; tag "a"] = false /\
  dirlists_equal [tag "a"; tag "b"] [tag "a"; tag "b"] = true /\ dirlists_equal [tag "a"; tag "b"] [tag "b"; tag "a"] = false.
Proof. vm_compute. repeat split. Qed.

(* Whether two definitions of one name merge does not depend on which of them comes first: for
   every kind (objects, interfaces, inputs, enums, unions, scalars), with field and argument
   names, enum values and union members distinct within each definition (GraphQL validation).  For
   two services this is the success half of the property at every shared name. *)
Theorem C10_two_definitions_merge_in_both_orders_or_in_neither : forall p n,
  dwf p -> dwf n -> is_internal_name (df_name p) = false -> is_internal_name (df_name n) = false ->
  is_ok (merge2 p n) = is_ok (merge2 n p).
Proof.
  intros p n Wp Wn Ip In_.
  destruct (is_ok (merge2 p n)) eqn:E1; destruct (is_ok (merge2 n p)) eqn:E2; try reflexivity.
  - rewrite (merge2_ok_sym p n Wp Wn Ip In_ E1) in E2. discriminate.
  - rewrite (merge2_ok_sym n p Wn Wp In_ Ip E2) in E1. discriminate.
Qed.
Print Assumptions C10_two_definitions_merge_in_both_orders_or_in_neither.

(* the pairwise relation the theorems rest on is symmetric, so it cannot prefer an order *)
Theorem C10_compatibility_symmetric : forall a b, drel a b -> drel b a.
Proof. exact drel_sym. Qed.
Print Assumptions C10_compatibility_symmetric.

Example C10_nonvacuous :
  let f n t := {| fd_name := n; fd_desc := ""; fd_type := Some (TNamed t false); fd_args := []; fd_default := None; fd_dirs := [] |} in
  let d n fs ifs := {| df_kind := KObject; df_name := n; df_desc := ""; df_fields := fs; df_ifaces := ifs; df_members := []; df_enums := []; df_dirs := [] |} in
  let a := d "User" [f "id" "ID"; f "a" "Int"] ["Node"] in
  let b := d "User" [f "id" "ID"; f "b" "Int"] [] in
  let c := d "User" [f "c" "Int"; f "a" "Int"] ["Named"] in
  match merge_group a [b; c], merge_group c [b; a] with
  | Ok x, Ok y => map fd_name (df_fields x) = ["id"; "a"; "b"; "c"] /\ map fd_name (df_fields y) = ["c"; "a"; "id"; "b"] /\
                  df_ifaces x = ["Named"; "Node"] /\ df_ifaces y = ["Named"; "Node"]
  | _, _ => False
  end.
Proof. vm_compute. repeat split. Qed.

(* three services in all six orders: a shared object, a shared interface, a shared enum with an
   applied directive, a directive declared twice; once compatible and once with one clash *)
Example C10_orders_nonvacuous :
  let f n t := {| fd_name := n; fd_desc := ""; fd_type := Some (TNamed t false); fd_args := []; fd_default := None; fd_dirs := [] |} in
  let d k n fs ifs := {| df_kind := k; df_name := n; df_desc := ""; df_fields := fs; df_ifaces := ifs; df_members := []; df_enums := []; df_dirs := [] |} in
  let dir := {| dd_name := "tag"; dd_desc := ""; dd_locs := ["FIELD"; "OBJECT"]; dd_args := []; dd_builtin := false; dd_repeatable := false |} in
  let intro := d KObject "__Type" [f "name" "String"] [] in
  let s1 := {| s_types := [d KObject "User" [f "id" "ID"; f "a" "Int"] ["Node"]; d KInterface "Node" [f "id" "ID"] []; intro]; s_dirs := [dir] |} in
  let s2 := {| s_types := [d KObject "User" [f "id" "ID"; f "b" "Int"] []; intro]; s_dirs := [dir] |} in
  let s3 := {| s_types := [d KInterface "Node" [f "id" "ID"] []; d KObject "User" [f "a" "Int"] []]; s_dirs := [] |} in
  let bad := {| s_types := [d KObject "User" [f "a" "String"] []]; s_dirs := [] |} in
  sources_wfb [s1; s2; s3; bad] = true /\
  map (fun l => is_ok (merge_schemas l)) [[s1; s2; s3]; [s1; s3; s2]; [s2; s1; s3]; [s2; s3; s1]; [s3; s1; s2]; [s3; s2; s1]] = [true; true; true; true; true; true] /\
  map (fun l => is_ok (merge_schemas l)) [[s1; s2; bad]; [s1; bad; s2]; [bad; s1; s2]] = [false; false; false].
Proof. vm_compute. repeat split. Qed.

(* an interface that implements another one in one service only; a union and an enum *)
Example C10_interfaces_nonvacuous :
  let f n t := {| fd_name := n; fd_desc := ""; fd_type := Some (TNamed t false); fd_args := []; fd_default := None; fd_dirs := [] |} in
  let d k n fs ifs := {| df_kind := k; df_name := n; df_desc := ""; df_fields := fs; df_ifaces := ifs; df_members := []; df_enums := []; df_dirs := [] |} in
  let s1 := {| s_types := [d KInterface "Entity" [f "id" "ID"] []; d KInterface "Node" [f "id" "ID"] ["Entity"];
                           d KObject "User" [f "id" "ID"] ["Node"; "Entity"]]; s_dirs := [] |} in
  let s2 := {| s_types := [d KInterface "Node" [f "id" "ID"] []; d KObject "Photo" [f "id" "ID"] ["Node"]]; s_dirs := [] |} in
  types_wfb [s1; s2] = true /\ sources_wfb [s1; s2] = true /\
  match merge_schemas [s1; s2], merge_schemas [s2; s1] with
  | Ok a, Ok b => set_eqb (assoc_l "Entity" (m_possible a)) ["Entity"; "Node"; "User"] = true /\
                  set_eqb (assoc_l "Entity" (m_possible b)) ["Entity"; "Node"; "User"] = true /\
                  assoc_l "Node" (m_implements a) = ["Entity"] /\ assoc_l "Node" (m_implements b) = ["Entity"]
  | _, _ => False
  end.
Proof. vm_compute. repeat split. Qed.

(* C10 — merging does not depend on service order or on the run.
   Property theorems only; model in Gw/Merge.v, proofs in Proofs/MergeProofs.v, Proofs/MergeUnion.v. *)
From Coq Require Import String List Bool Permutation.
From GW Require Import Base.Res Base.GoStr Gql.Schema Gw.Merge Gw.MergeCheck
  Proofs.MergeBasics Proofs.MergeProofs Proofs.MergeUnion Proofs.DirEq Proofs.MergeSym.
Import ListNotations.
Open Scope string_scope.
Open Scope list_scope.

(* The resulting type system: for every two orders in which the definitions of a name are met and
   merge successfully, the results have the same kind, the same fields with the same signatures,
   the same implemented interfaces / enum values / union members (order of fields and
   descriptions aside).  Any number of definitions, any permutation. *)
Theorem C10_result_independent_of_order : forall d ds d' ds' o1 o2,
  merge_group d ds = Ok o1 -> merge_group d' ds' = Ok o2 ->
  Permutation (d :: ds) (d' :: ds') -> Forall ok_def (d :: ds) ->
  same_typesystem o1 o2.
Proof. exact group_result_order_independent. Qed.
Print Assumptions C10_result_independent_of_order.

(* Whether construction succeeds (partial: for the incompatibilities the property C09 lists).
   If some order of the services succeeds, no two definitions of one name are incompatible; that
   conclusion does not mention the order, so by C09 no order can fail because of such a pair.
   Applied directives: see C10_applied_directives_compared_symmetrically and the theorem for two
   definitions below; for three and more services the statement is decided per case (c10_holds). *)
Theorem C10_success_excludes_incompatibility_partial : forall all out a b,
  merge_types all = Ok out -> Forall wf_def all ->
  In a all -> In b all -> df_name a = df_name b -> is_internal_name (df_name a) = false ->
  incompatible a b = false.
Proof. exact merge_types_ok_no_incompatible. Qed.
Print Assumptions C10_success_excludes_incompatibility_partial.

(* the full statement, kept visible: *)
Definition C10_success_statement : Prop := forall srcs srcs' : list schema,
  Permutation srcs srcs' -> is_ok (merge_schemas srcs) = is_ok (merge_schemas srcs').

(* Applied directives (as repaired, see DESIGN 6.5): the n-th application of a directive is compared
   with the n-th application of that directive in the other list, and the outcome does not depend
   on which of the two definitions comes first -- also when a repeatable directive is applied
   several times.  (Argument names are unique within one application: GraphQL validation.) *)
Theorem C10_applied_directives_compared_symmetrically : forall l1 l2,
  args_wf l1 -> args_wf l2 -> dirlists_equal l1 l2 = true -> dirlists_equal l2 l1 = true.
Proof. exact dirlists_equal_sym. Qed.
Print Assumptions C10_applied_directives_compared_symmetrically.

Example C10_repeated_directives :
  let tag v := {| da_name := "tag"; da_args := [("name", Some {| gv_kind := 0; gv_str := v |})] |} in
  dirlists_equal [tag "a"; tag "a"] [tag "a"; tag "b"] = false /\ dirlists_equal [tag "a"; tag "b"] [tag "a"; tag "a"] = false /\
  dirlists_equal [tag "a"; tag "b"] [tag "a"; tag "b"] = true /\ dirlists_equal [tag "a"; tag "b"] [tag "b"; tag "a"] = false.
Proof. vm_compute. repeat split. Qed.

(* Whether two definitions of one name merge does not depend on which of them comes first: for
   every kind (objects, interfaces, inputs, enums, unions, scalars), with field and argument
   names, enum values and union members distinct within each definition (GraphQL validation).  For
   two services this is the success half of the property at every shared name. *)
Theorem C10_two_definitions_merge_in_both_orders_or_in_neither : forall p n,
  dwf p -> dwf n -> is_internal_name (df_name p) = false -> is_internal_name (df_name n) = false ->
  is_ok (merge2 p n) = is_ok (merge2 n p).
Proof.
  intros p n Wp Wn Ip In_.
  destruct (is_ok (merge2 p n)) eqn:E1; destruct (is_ok (merge2 n p)) eqn:E2; try reflexivity.
  - rewrite (merge2_ok_sym p n Wp Wn Ip In_ E1) in E2. discriminate.
  - rewrite (merge2_ok_sym n p Wn Wp In_ Ip E2) in E1. discriminate.
Qed.
Print Assumptions C10_two_definitions_merge_in_both_orders_or_in_neither.

(* the pairwise relation the theorems rest on is symmetric, so it cannot prefer an order *)
Theorem C10_compatibility_symmetric : forall a b, drel a b -> drel b a.
Proof. exact drel_sym. Qed.
Print Assumptions C10_compatibility_symmetric.

Example C10_nonvacuous :
  let f n t := {| fd_name := n; fd_desc := ""; fd_type := Some (TNamed t false); fd_args := []; fd_default := None; fd_dirs := [] |} in
  let d n fs ifs := {| df_kind := KObject; df_name := n; df_desc := ""; df_fields := fs; df_ifaces := ifs; df_members := []; df_enums := []; df_dirs := [] |} in
  let a := d "User" [f "id" "ID"; f "a" "Int"] ["Node"] in
  let b := d "User" [f "id" "ID"; f "b" "Int"] [] in
  let c := d "User" [f "c" "Int"; f "a" "Int"] ["Named"] in
  match merge_group a [b; c], merge_group c [b; a] with
  | Ok x, Ok y => map fd_name (df_fields x) = ["id"; "a"; "b"; "c"] /\ map fd_name (df_fields y) = ["c"; "a"; "id"; "b"] /\
                  df_ifaces x = ["Named"; "Node"] /\ df_ifaces y = ["Named"; "Node"]
  | _, _ => False
  end.
Proof. vm_compute. repeat split. Qed.

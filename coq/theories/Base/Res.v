(* Outcomes of Go functions: a value, a returned error, or a run-time panic. *)
From Coq Require Import String List.
Import ListNotations.

Inductive res (A : Type) : Type :=
| Ok (a : A)
| Err (msg : string)
| Panic (msg : string).
Arguments Ok {A} a.
Arguments Err {A} msg.
Arguments Panic {A} msg.

Definition bind {A B} (r : res A) (f : A -> res B) : res B :=
  match r with Ok a => f a | Err e => Err e | Panic e => Panic e end.

Definition is_ok {A} (r : res A) : bool := match r with Ok _ => true | _ => false end.
Definition is_err {A} (r : res A) : bool := match r with Err _ => true | _ => false end.
Definition is_panic {A} (r : res A) : bool := match r with Panic _ => true | _ => false end.

(* outcome class, the only part of an error that is compared with the implementation *)
Inductive cls := COk | CErr | CPanic.
Definition cls_of {A} (r : res A) : cls :=
  match r with Ok _ => COk | Err _ => CErr | Panic _ => CPanic end.
Definition cls_eqb (a b : cls) : bool :=
  match a, b with COk, COk | CErr, CErr | CPanic, CPanic => true | _, _ => false end.

Notation "x <- r ;; k" := (bind r (fun x => k)) (at level 61, r at next level, right associativity).

(* JSON values as Go decodes them into interface{}: objects are Go maps (here association
   lists with unique keys; order is not observable and is canonicalised before comparing),
   numbers are kept as their literal text, and JFile stands for an uploaded file. *)
From Coq Require Import String List Bool ZArith Lia.
From GW Require Import Base.GoStr.
Import ListNotations.
Open Scope string_scope.

Inductive json : Type :=
| JNull
| JBool (b : bool)
| JNum (lit : string)
| JStr (s : string)
| JFile (name : string)
| JArr (l : list json)
| JObj (m : list (string * json)).

(* nested induction principle *)
Section JsonInd.
  Variable P : json -> Prop.
  Hypothesis HNull : P JNull.
  Hypothesis HBool : forall b, P (JBool b).
  Hypothesis HNum : forall s, P (JNum s).
  Hypothesis HStr : forall s, P (JStr s).
  Hypothesis HFile : forall s, P (JFile s).
  Hypothesis HArr : forall l, Forall P l -> P (JArr l).
  Hypothesis HObj : forall m, Forall (fun kv => P (snd kv)) m -> P (JObj m).

  Fixpoint json_ind' (j : json) : P j :=
    match j with
    | JNull => HNull
    | JBool b => HBool b
    | JNum s => HNum s
    | JStr s => HStr s
    | JFile s => HFile s
    | JArr l =>
        HArr l ((fix go (l : list json) : Forall P l :=
                   match l with
                   | [] => Forall_nil _
                   | x :: r => Forall_cons _ (json_ind' x) (go r)
                   end) l)
    | JObj m =>
        HObj m ((fix go (m : list (string * json)) : Forall (fun kv => P (snd kv)) m :=
                   match m with
                   | [] => Forall_nil _
                   | (k, v) :: r => Forall_cons (k, v) (json_ind' v) (go r)
                   end) m)
    end.
End JsonInd.

(* Go map operations *)
Fixpoint jget (k : string) (m : list (string * json)) : option json :=
  match m with
  | [] => None
  | (k', v) :: r => if String.eqb k k' then Some v else jget k r
  end.

(* m[k] = v : replace in place, else append *)
Fixpoint jset (k : string) (v : json) (m : list (string * json)) : list (string * json) :=
  match m with
  | [] => [(k, v)]
  | (k', v') :: r => if String.eqb k k' then (k, v) :: r else (k', v') :: jset k v r
  end.

Fixpoint jdel (k : string) (m : list (string * json)) : list (string * json) :=
  match m with
  | [] => []
  | (k', v') :: r => if String.eqb k k' then jdel k r else (k', v') :: jdel k r
  end.

Definition keys (m : list (string * json)) : list string := map fst m.

Fixpoint upd_nth {A} (l : list A) (n : nat) (x : A) : list A :=
  match l, n with
  | [], _ => []
  | _ :: r, O => x :: r
  | a :: r, S n' => a :: upd_nth r n' x
  end.

Lemma upd_nth_length {A} (l : list A) n x : length (upd_nth l n x) = length l.
Proof. revert n; induction l as [|a l IH]; intros [|n]; simpl; auto. Qed.

Lemma nth_error_upd_nth_eq {A} (l : list A) n x :
  n < length l -> nth_error (upd_nth l n x) n = Some x.
Proof.
  revert n; induction l as [|a l IH]; intros [|n] H; simpl in *; try lia; auto.
  apply IH; lia.
Qed.

Lemma nth_error_upd_nth_neq {A} (l : list A) n m x :
  n <> m -> nth_error (upd_nth l n x) m = nth_error l m.
Proof.
  revert n m; induction l as [|a l IH]; intros [|n] [|m] H; simpl; auto; try congruence.
Qed.

Lemma jget_jset_eq k v m : jget k (jset k v m) = Some v.
Proof.
  induction m as [|[k' v'] m IH]; simpl.
  - rewrite String.eqb_refl; reflexivity.
  - destruct (String.eqb k k') eqn:E; simpl; rewrite ?String.eqb_refl, ?E; auto.
Qed.

Lemma jget_jset_neq k k' v m : k <> k' -> jget k' (jset k v m) = jget k' m.
Proof.
  intros Hne. induction m as [|[k2 v2] m IH]; simpl.
  - destruct (String.eqb k' k) eqn:E; auto. apply String.eqb_eq in E; congruence.
  - destruct (String.eqb k k2) eqn:E; simpl.
    + apply String.eqb_eq in E; subst k2.
      destruct (String.eqb k' k) eqn:E2; auto. apply String.eqb_eq in E2; congruence.
    + destruct (String.eqb k' k2); auto.
Qed.

Lemma keys_jset_present k v m : jget k m <> None -> keys (jset k v m) = keys m.
Proof.
  induction m as [|[k' v'] m IH]; simpl; intros H; [congruence|].
  destruct (String.eqb k k') eqn:E; simpl.
  - apply String.eqb_eq in E; subst; reflexivity.
  - f_equal. apply IH. exact H.
Qed.

(* structural equality, as a boolean *)
Fixpoint json_eqb (a b : json) : bool :=
  match a, b with
  | JNull, JNull => true
  | JBool x, JBool y => Bool.eqb x y
  | JNum x, JNum y => String.eqb x y
  | JStr x, JStr y => String.eqb x y
  | JFile x, JFile y => String.eqb x y
  | JArr x, JArr y =>
      (fix go (x y : list json) : bool :=
         match x, y with
         | [], [] => true
         | a :: x', b :: y' => json_eqb a b && go x' y'
         | _, _ => false
         end) x y
  | JObj x, JObj y =>
      (fix go (x y : list (string * json)) : bool :=
         match x, y with
         | [], [] => true
         | (k, a) :: x', (k', b) :: y' => String.eqb k k' && json_eqb a b && go x' y'
         | _, _ => false
         end) x y
  | _, _ => false
  end.

Lemma json_eqb_eq a : forall c, json_eqb a c = true <-> a = c.
Proof.
  induction a as [| x | x | x | x | l H | m H] using json_ind'; intros c; destruct c as [| y | y | y | y | l0 | m0];
    simpl; try (split; [discriminate|discriminate]); try tauto.
  - rewrite Bool.eqb_true_iff. split; congruence.
  - rewrite String.eqb_eq. split; congruence.
  - rewrite String.eqb_eq. split; congruence.
  - rewrite String.eqb_eq. split; congruence.
  - revert l0. induction H as [|x l Hx Hl IH]; intros [|y l0]; try (split; [discriminate|discriminate]); try tauto.
    rewrite andb_true_iff, Hx, IH. split.
    + intros [-> E]. congruence.
    + intros E. inversion E; subst. auto.
  - revert m0. induction H as [|[k x] m Hx Hm IH]; intros [|[k' y] m0]; try (split; [discriminate|discriminate]); try tauto.
    simpl in Hx. rewrite !andb_true_iff, String.eqb_eq, Hx, IH. split.
    + intros [[-> ->] E]. congruence.
    + intros E. inversion E; subst. auto.
Qed.

(* insertion sort of object keys, recursively: the canonical form compared with the
   implementation (whose encoder sorts map keys) *)
Fixpoint ins_kv (kv : string * json) (m : list (string * json)) : list (string * json) :=
  match m with
  | [] => [kv]
  | kv' :: r => if String.leb (fst kv) (fst kv') then kv :: m else kv' :: ins_kv kv r
  end.

Fixpoint canon (j : json) : json :=
  match j with
  | JArr l => JArr (map canon l)
  | JObj m => JObj (fold_right (fun kv acc => ins_kv (fst kv, canon (snd kv)) acc) [] m)
  | _ => j
  end.

Definition json_equiv (a b : json) : bool := json_eqb (canon a) (canon b).

(* The few Go string functions the gateway relies on: strings.Split on a one-byte
   separator, strings.Contains/Index for one byte, strconv.Atoi, strconv.Itoa. *)
From Coq Require Import String Ascii List ZArith Bool Lia.
Import ListNotations.
Open Scope string_scope.

(* strings.Split(s, sep) for a one-byte separator: never returns the empty list *)
Fixpoint split_aux (sep : ascii) (s : string) (cur : string) : list string :=
  match s with
  | EmptyString => [cur]
  | String c r =>
      if Ascii.eqb c sep then cur :: split_aux sep r ""
      else split_aux sep r (cur ++ String c "")
  end.
Definition split (sep : ascii) (s : string) : list string := split_aux sep s "".

Fixpoint contains_char (c : ascii) (s : string) : bool :=
  match s with EmptyString => false | String d r => Ascii.eqb c d || contains_char c r end.

(* strings.Join(l, sep) *)
Fixpoint join (sep : string) (l : list string) : string :=
  match l with
  | [] => ""
  | [x] => x
  | x :: r => x ++ sep ++ join sep r
  end.

(* strconv.Atoi (base 10, 64-bit int): optional sign, at least one digit, digits only,
   value within int64 *)
Definition digit (c : ascii) : option Z :=
  let n := Z.of_nat (nat_of_ascii c) in
  if (48 <=? n)%Z && (n <=? 57)%Z then Some (n - 48)%Z else None.

Fixpoint digits (s : string) (acc : Z) : option Z :=
  match s with
  | EmptyString => Some acc
  | String c r => match digit c with Some d => digits r (acc * 10 + d)%Z | None => None end
  end.

Definition int64_max : Z := 9223372036854775807%Z.

Definition in_int64 (z : Z) : bool := ((- int64_max - 1 <=? z) && (z <=? int64_max))%Z.

Definition atoi (s : string) : option Z :=
  let unsigned r := match r with EmptyString => None | _ => digits r 0%Z end in
  let v := match s with
           | EmptyString => None
           | String c r =>
               if Ascii.eqb c "-"%char then option_map Z.opp (unsigned r)
               else if Ascii.eqb c "+"%char then unsigned r
               else digits s 0%Z
           end in
  match v with Some z => if in_int64 z then Some z else None | None => None end.

(* strconv.Itoa for non-negative numbers (all the gateway prints are list indexes) *)
Definition digit_char (d : nat) : ascii := ascii_of_nat (48 + d).
Fixpoint itoa_aux (fuel : nat) (n : nat) (acc : string) : string :=
  match fuel with
  | O => acc
  | S f => let acc' := String (digit_char (Nat.modulo n 10)) acc in
           if Nat.eqb (Nat.div n 10) 0 then acc' else itoa_aux f (Nat.div n 10) acc'
  end.
Definition itoa (n : nat) : string := itoa_aux (S n) n "".

Definition str_mem (x : string) (l : list string) : bool := existsb (String.eqb x) l.

Lemma str_mem_In x l : str_mem x l = true <-> In x l.
Proof.
  unfold str_mem. rewrite existsb_exists. split.
  - intros [y [H E]]. apply String.eqb_eq in E. subst; auto.
  - intros H. exists x. split; auto. apply String.eqb_refl.
Qed.

(* The synchronisation skeletons, constants and conditions of nautilus/gateway that the models in
   Gw/*.v were written from (output of /verif/translator on the tree they were written against).
   Every check regenerates them from the working tree and proves them equal to these. *)
From Coq Require Import String.
Open Scope string_scope.

Definition verified_execute_Execute : string :=
  "(MakeChan x0 maxResultBuffer)(Defer (Close x0))(MakeChan x1 0)(Defer (Close x1))(If {(Return)})(Range {(Add x2 1)(Go executeStep)})(Go {(For {(Select (On (Recv x0) {(If {(Return)})(Call executorInsertObject)(Switch (Case {})(Case {})(Case {(Done x2)}))})(On (Recv x1) {(Return)}))})})(Wait x2)(Lock x3)(Defer (Unlock x3))(If {(Return)})(Return)".

Definition verified_execute_executeStep : string :=
  "(Call executeOneStep)(Add x0 len)(Send x1)(Range {(Go executeStep)})".

Definition verified_plan_generatePlans : string :=
  "(Range {(Append plans)(MakeChan x0 maxConcurrentSteps)(MakeChan x1 0)(Defer (Close x1))(Add x2 1)(Send x0)(Go {(Range {(Call .GetQueryer)(If {(Append payload.Parent.Then)})(Call .extractSelection)(If {(Send x1)(Continue)})(Range {(Append variableDefs)})(Call plannerBuildQuery)(If {(Send x1)(Continue)})(Done x2)})})(MakeChan x3 0)(Defer (Close x3))(Go {(Wait x2)(Send x3)})(Select (On (Recv x1) {(Return)})(On (Recv x3) {(Close x0)}))})(Return)".

Definition verified_plan_extractSelection : string :=
  "(Call .groupSelectionSet)(If {(Return)})(Range {(If {(Continue)})(If {(Call .wrapSelectionSet)(If {(Return)})})(Add x0.stepWg 1)(Send x0.stepCh)})(If {(Append locationFields[config.parentLocation])(StoreAt locationFields[config.parentLocation])})(If {(Return)})(Range {(Switch (Case {(If {(Call copyStrings)(Append insertionPoint)(Call .extractSelection)(If {(Return)})})(Append finalSelection)})(Case {(Append finalSelection)(Call .extractSelection)(If {(Return)})(If {(Append config.step.FragmentDefinitions)})})(Case {(Append newWrapper)(Call .extractSelection)(If {(Return)})(Append finalSelection)}))})(Return)".

Definition verified_http_GraphQLHandler : string :=
  "(Call parseRequest)(If {(Call formatErrors)(Return)})(Range {(If {(Call formatErrorsWithCode)(StoreAt results[opNum])(Continue)})(Call .GetPlans)(If {(Call formatErrorsWithCode)(StoreAt results[opNum])(Continue)})(Add x0 1)(Go g.executeRequest)})(Wait x0)(If {(Call formatErrors)(If {(Call formatErrors)})})(Call emitResponse)".

Definition verified_http_setResultFunc : string :=
  "(Return)".

Definition verified_http_executeRequest : string :=
  "(Defer (Done x0))(Call .Execute)(If {(Call formatErrorsWithCode)(Return)})(If {(StoreAt payload[""extensions""])})".

Definition verified_cache_Retrieve : string :=
  "(Defer {(Go {(Lock recv.timeMutex)(Unlock recv.timeMutex)(If [resetTimer] {(Send recv.retrievedPlan)(Return)})(Lock recv.timeMutex)(Unlock recv.timeMutex)(For {(Select (On (Recv recv.retrievedPlan) {(Reset x0)})(On (Recv x0.C) {(Lock recv.timeMutex)(Unlock recv.timeMutex)(Range recv.cache {(Load x1.LastUsed)(If [lastUsed.Before(time.Now().Add(-c.ttl))] {(Delete recv.cache)})(Return)})(Break)}))})})})(Load recv.cache)(If [hasCachedValue] {(Store x2.LastUsed)(Return)})(If [ctx.Query == """"] {(Return)})(Call .Plan)(If [err != nil] {(Return)})(Store x1.LastUsed)(LoadOrStore recv.cache)(If [exists] {(Store actual.(*queryPlanCacheItem).LastUsed)})(Return)".

Definition verified_gateway_Execute : string :=
  "(If {} else {(If {(Return)})(Call .ForOperation)(If {(Return)})})(Call .Execute)(Range {(If {(Return)})})(Return)".

Definition verified_const_MessageMissingCachedQuery : string := """PersistedQueryNotFound""".
Definition verified_const_defaultTTL : string := "10 * 24 * time.Hour".
Definition verified_const_maxConcurrentSteps : string := "50".
Definition verified_const_maxResultBuffer : string := "10".

(* The synchronisation skeletons, constants and conditions of nautilus/gateway that the models in
   Gw/*.v were written from (output of /verif/translator on the tree they were written against).
   Every check regenerates them from the working tree and proves them equal to these. *)
From Coq Require Import String.
Open Scope string_scope.

Definition verified_execute_Execute : string :=
  "(MakeChan x0 maxResultBuffer)(Defer (Close x0))(MakeChan x1 0)(Defer (Close x1))(If {(Return)})(Range {(Add x2 1)(Go executeStep)})(Closure recordErr {(Lock x3)(If {(Append errs)} else {(Append errs)})(Unlock x3)(Done x2)})(Go {(For {(Select (On (Recv x0) {(If {(Return)})(Call executorInsertObject)(Switch (Case {(CallLocal recordErr)})(Case {(CallLocal recordErr)})(Case {(Done x2)}))})(On (Recv x1) {(Return)}))})})(Wait x2)(Lock x3)(Defer (Unlock x3))(If {(Return)})(Return)".

Definition verified_execute_executeStep : string :=
  "(Call executeOneStep)(Add x0 len)(Send x1)(Range {(Go executeStep)})".

Definition verified_plan_generatePlans : string :=
  "(Range {(Append plans)(For {(Call .GetQueryer)(If {(Append payload.Parent.Then)})(Call .extractSelection)(If {(Return)})(Range {(Append variableDefs)})(Call plannerBuildQuery)(If {(Return)})})})(Return)".

Definition verified_plan_extractSelection : string :=
  "(Call .groupSelectionSet)(If {(Return)})(Range {(If {(Continue)})(If {(Call .wrapSelectionSet)(If {(Return)})})(Append *config.steps)})(If {(Append locationFields[config.parentLocation])(StoreAt locationFields[config.parentLocation])})(If {(Return)})(Range {(Switch (Case {(If {(Call copyStrings)(Append insertionPoint)(Call .extractSelection)(If {(Return)})})(Append finalSelection)})(Case {(Append finalSelection)(Call .extractSelection)(If {(Return)})(If {(Append config.step.FragmentDefinitions)})})(Case {(Append newWrapper)(Call .extractSelection)(If {(Return)})(Append finalSelection)}))})(Return)".

Definition verified_http_GraphQLHandler : string :=
  "(Call parseRequest)(If {(Call formatErrors)(Return)})(Range {(If {(Call formatErrorsWithCode)(StoreAt results[opNum])(Continue)})(Call .GetPlans)(If {(Call formatErrorsWithCode)(StoreAt results[opNum])(Continue)})(Add x0 1)(Go g.executeRequest)})(Wait x0)(If {(Call formatErrors)(If {(Call formatErrors)})})(Call emitResponse)".

Definition verified_http_setResultFunc : string :=
  "(Return)".

Definition verified_http_executeRequest : string :=
  "(Defer (Done x0))(Call .Execute)(If {(Call formatErrorsWithCode)(Return)})(If {(StoreAt payload[""extensions""])})".

Definition verified_cache_Retrieve : string :=
  "(Defer {(Go {(Lock recv.timeMutex)(Unlock recv.timeMutex)(If [resetTimer] {(Send recv.retrievedPlan)(Return)})(Lock recv.timeMutex)(Unlock recv.timeMutex)(For {(Select (On (Recv recv.retrievedPlan) {(Reset x0)})(On (Recv x0.C) {(Lock recv.timeMutex)(Unlock recv.timeMutex)(Range recv.cache {(Load x1.LastUsed)(If [lastUsed.Before(time.Now().Add(-c.ttl))] {(Delete recv.cache)})(Return)})(Break)}))})})})(Load recv.cache)(If [hasCachedValue] {(Store x2.LastUsed)(Return)})(If [ctx.Query == """"] {(Return)})(Call .Plan)(If [err != nil] {(Return)})(Store x1.LastUsed)(LoadOrStore recv.cache)(If [exists] {(Store actual.(*queryPlanCacheItem).LastUsed)})(Return)".

Definition verified_gateway_Execute : string :=
  "(If {} else {(If {(Return)})(Call .ForOperation)(If {(Return)})})(Call .Execute)(Range {(If {(Return)})})(Return)".

Definition verified_execute_executorExtractValue : string :=
  "(Range {(If (Call isListElement){(Call executorGetPointData)(If {(Return)})(If {(Return)})(If {(Lock x0)(StoreAt recentObj[pointData.Field])(Unlock x0)})(Lock x0)(Unlock x0)(If {(Return)})(If {(For {(Append targetList)})(Lock x0)(StoreAt recentObj[pointData.Field])(Unlock x0)})(Lock x0)(Unlock x0)} else {(Call executorGetPointData)(If {(Return)})(If {(Return)})(Lock x0)(Unlock x0)(If {(Lock x0)(StoreAt recentObj[pointField])(Unlock x0)})(If {(StoreAt recentObj[pointField])})})})(Return)".

Definition verified_execute_executorInsertObject : string :=
  "(If {(Call executorExtractValue)(If {(Return)})(If {(Return)})(If {(Lock x0)(Call executorMergeObject)(Unlock x0)})} else {(If {(Return)})(Lock x0)(Call executorMergeObject)(Unlock x0)})(Return)".

Definition verified_execute_executorFindInsertionPoints : string :=
  "(If {(If {(Return)})})(For {(Call findSelection)(If {(Return)})(If {(Return)})(If {(Return)})(If {(If {(Return)})(Return)})(If {(If {(Return)})(Range {(If {(Continue)})(If {(Return)})(Range {(Append newBranchSet)(Call copyStrings)})(If {(Range {(If {(If {(Return)})})(Append newBranchSet[i])(StoreAt newBranchSet[i])})} else {(Append newBranchSet)})(Call executorFindInsertionPoints)(If {(Return)})(Append newInsertionPoints)})(Return)})(Range {(Append oldBranch[i])(StoreAt oldBranch[i])})(If {(If {(Range {(If {(Return)})(If {(Return)})(Lock x0)(Unlock x0)(If {(Return)})(StoreAt oldBranch[i][pointI])})} else {(If {(Return)})(Range {(If {(Return)})(StoreAt oldBranch[i][pointI])})})})})(Return)".

Definition verified_middlewares_scrubInsertionIDs : string :=
  "(Range {(Range {(Call executorFindInsertionPoints)(If {(Return)})(Range {(Call executorExtractValue)(If {(Return)})(If {(Return)})})})})(Return)".

Definition verified_writes_gateway_Execute : string :=
  "".

Definition verified_writes_execute_Execute : string :=
  "".

Definition verified_writes_execute_executeStep : string :=
  "".

Definition verified_writes_execute_executeOneStep : string :=
  "L:variables[""id""] ; L:variables[variable]".

Definition verified_writes_execute_findSelection : string :=
  "".

Definition verified_writes_execute_executorFindInsertionPoints : string :=
  "L:newBranchSet[i] ; L:oldBranch[i] ; L:oldBranch[i][pointI]".

Definition verified_writes_execute_executorExtractValue : string :=
  "L:recentObj[pointData.Field] ; L:recentObj[pointField]".

Definition verified_writes_execute_executorInsertObject : string :=
  "".

Definition verified_writes_execute_executorMergeObject : string :=
  "P:target[key]".

Definition verified_writes_execute_executorMergeValue : string :=
  "L:existingList[i]".

Definition verified_writes_execute_executorGetPointData : string :=
  "".

Definition verified_writes_middlewares_scrubInsertionIDs : string :=
  "DL:obj".

Definition verified_const_MessageMissingCachedQuery : string := """PersistedQueryNotFound""".
Definition verified_const_defaultTTL : string := "10 * 24 * time.Hour".
Definition verified_const_maxResultBuffer : string := "10".

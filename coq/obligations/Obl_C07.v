(* Regenerated obligations for C07 (the collector and one executor step: where errors are made and recorded). *)
From Coq Require Import String.
From Gen Require Import Skeletons.
From GW Require Import VerifiedBodies.

Lemma execute_executeOneStep_body : gen_execute_executeOneStep = verified_execute_executeOneStep.
Proof. reflexivity. Qed.

Lemma execute_executorInsertObject_cond_body : gen_execute_executorInsertObject_cond = verified_execute_executorInsertObject_cond.
Proof. reflexivity. Qed.

Lemma execute_Execute_cond_body : gen_execute_Execute_cond = verified_execute_Execute_cond.
Proof. reflexivity. Qed.

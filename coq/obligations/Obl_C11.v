(* Regenerated obligations for C11: the write sets of every function on the execution path.  In
   the isolation theorem (Proofs/IsolationProofs.v) the plan is a parameter of the step relation
   and never part of a state; that is the code's shape as long as no function of the execution path
   stores through the plan, a step, or anything else that outlives the request.  P: = a store
   through a parameter or the receiver, L: = through a local, D = delete, M: = a mutating method
   call.  The only P: store is executorMergeObject's target[key] (the response map being built). *)
From Coq Require Import String.
From Gen Require Import Skeletons.
From GW Require Import Verified.

Lemma writes_gateway_Execute : gen_writes_gateway_Execute = verified_writes_gateway_Execute.
Proof. reflexivity. Qed.
Lemma writes_execute_Execute : gen_writes_execute_Execute = verified_writes_execute_Execute.
Proof. reflexivity. Qed.
Lemma writes_execute_executeStep : gen_writes_execute_executeStep = verified_writes_execute_executeStep.
Proof. reflexivity. Qed.
Lemma writes_execute_executeOneStep : gen_writes_execute_executeOneStep = verified_writes_execute_executeOneStep.
Proof. reflexivity. Qed.
Lemma writes_execute_findSelection : gen_writes_execute_findSelection = verified_writes_execute_findSelection.
Proof. reflexivity. Qed.
Lemma writes_execute_executorFindInsertionPoints : gen_writes_execute_executorFindInsertionPoints = verified_writes_execute_executorFindInsertionPoints.
Proof. reflexivity. Qed.
Lemma writes_execute_executorExtractValue : gen_writes_execute_executorExtractValue = verified_writes_execute_executorExtractValue.
Proof. reflexivity. Qed.
Lemma writes_execute_executorInsertObject : gen_writes_execute_executorInsertObject = verified_writes_execute_executorInsertObject.
Proof. reflexivity. Qed.
Lemma writes_execute_executorMergeObject : gen_writes_execute_executorMergeObject = verified_writes_execute_executorMergeObject.
Proof. reflexivity. Qed.
Lemma writes_execute_executorMergeValue : gen_writes_execute_executorMergeValue = verified_writes_execute_executorMergeValue.
Proof. reflexivity. Qed.
Lemma writes_execute_executorGetPointData : gen_writes_execute_executorGetPointData = verified_writes_execute_executorGetPointData.
Proof. reflexivity. Qed.
Lemma writes_middlewares_scrubInsertionIDs : gen_writes_middlewares_scrubInsertionIDs = verified_writes_middlewares_scrubInsertionIDs.
Proof. reflexivity. Qed.

(* the step skeletons (shared with C05/C06): who calls the services and with what *)
Lemma execute_executeStep_skeleton : gen_execute_executeStep = verified_execute_executeStep.
Proof. reflexivity. Qed.

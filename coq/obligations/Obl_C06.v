(* Regenerated obligations for C06: the LTS Gw/ExecLTS.v was written from these skeletons of
   ParallelExecutor.Execute (bounded result channel; one wait-group Add per root step before it is
   started; a single collector goroutine that stitches, records the error itself and calls Done;
   Wait; return) and of executeStep (call; Add(len(dependents)) BEFORE the send; send; then spawn
   the dependents), and from the channel capacity. *)
From Coq Require Import String.
From Gen Require Import Skeletons.
From GW Require Import Verified VerifiedBodies.

Lemma execute_Execute_skeleton : gen_execute_Execute = verified_execute_Execute.
Proof. reflexivity. Qed.

Lemma execute_executeStep_skeleton : gen_execute_executeStep = verified_execute_executeStep.
Proof. reflexivity. Qed.

Lemma result_channel_capacity : gen_const_maxResultBuffer = verified_const_maxResultBuffer.
Proof. reflexivity. Qed.

(* the collector's error bookkeeping is a local closure (recordErr: lock, append, unlock, Done):
   it is part of the Execute skeleton above, one call per failed result.  The stitching functions
   the collector and the step tasks call take and release the result lock on every path: *)
Lemma execute_executorExtractValue_skeleton : gen_execute_executorExtractValue = verified_execute_executorExtractValue.
Proof. reflexivity. Qed.

Lemma execute_executorInsertObject_skeleton : gen_execute_executorInsertObject = verified_execute_executorInsertObject.
Proof. reflexivity. Qed.

Lemma execute_executorFindInsertionPoints_skeleton : gen_execute_executorFindInsertionPoints = verified_execute_executorFindInsertionPoints.
Proof. reflexivity. Qed.

(* bodies with their conditions (VerifiedBodies.v) *)
Lemma execute_Execute_cond_body : gen_execute_Execute_cond = verified_execute_Execute_cond.
Proof. reflexivity. Qed.

(* Regenerated obligations for C18 (injectFile and the multipart parser). *)
From Coq Require Import String.
From Gen Require Import Skeletons.
From GW Require Import VerifiedBodies.

Lemma http_parsePostRequest_body : gen_http_parsePostRequest = verified_http_parsePostRequest.
Proof. reflexivity. Qed.

Lemma http_injectFile_body : gen_http_injectFile = verified_http_injectFile.
Proof. reflexivity. Qed.

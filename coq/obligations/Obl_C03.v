(* Regenerated obligations for C03 (merging is a conservative union): the model Gw/Merge.v was written from these
   skeletons of merge.go -- which comparisons every merge function makes, in which order and under
   which conditions. *)
From Coq Require Import String.
From Gen Require Import Skeletons.
From GW Require Import VerifiedMerge VerifiedDecisions.

Lemma merge_mergeInterfaces_skeleton : gen_merge_mergeInterfaces = verified_merge_mergeInterfaces.
Proof. reflexivity. Qed.

Lemma merge_mergeObjectTypes_skeleton : gen_merge_mergeObjectTypes = verified_merge_mergeObjectTypes.
Proof. reflexivity. Qed.

Lemma merge_mergeInputObjects_skeleton : gen_merge_mergeInputObjects = verified_merge_mergeInputObjects.
Proof. reflexivity. Qed.

Lemma merge_mergeFieldList_skeleton : gen_merge_mergeFieldList = verified_merge_mergeFieldList.
Proof. reflexivity. Qed.

Lemma merge_mergeFields_skeleton : gen_merge_mergeFields = verified_merge_mergeFields.
Proof. reflexivity. Qed.

Lemma merge_mergeEnums_skeleton : gen_merge_mergeEnums = verified_merge_mergeEnums.
Proof. reflexivity. Qed.

Lemma merge_mergeEnumValues_skeleton : gen_merge_mergeEnumValues = verified_merge_mergeEnumValues.
Proof. reflexivity. Qed.

Lemma merge_mergeScalars_skeleton : gen_merge_mergeScalars = verified_merge_mergeScalars.
Proof. reflexivity. Qed.

Lemma merge_mergeUnions_skeleton : gen_merge_mergeUnions = verified_merge_mergeUnions.
Proof. reflexivity. Qed.

Lemma merge_mergeDirectives_skeleton : gen_merge_mergeDirectives = verified_merge_mergeDirectives.
Proof. reflexivity. Qed.

Lemma merge_mergeDirectiveLocations_skeleton : gen_merge_mergeDirectiveLocations = verified_merge_mergeDirectiveLocations.
Proof. reflexivity. Qed.

Lemma merge_mergeArgumentDefinitionList_skeleton : gen_merge_mergeArgumentDefinitionList = verified_merge_mergeArgumentDefinitionList.
Proof. reflexivity. Qed.

Lemma merge_mergeDirectiveListsEqual_skeleton : gen_merge_mergeDirectiveListsEqual = verified_merge_mergeDirectiveListsEqual.
Proof. reflexivity. Qed.

Lemma merge_mergeDirectiveEqual_skeleton : gen_merge_mergeDirectiveEqual = verified_merge_mergeDirectiveEqual.
Proof. reflexivity. Qed.

Lemma merge_mergeInterfaceNames_skeleton : gen_merge_mergeInterfaceNames = verified_merge_mergeInterfaceNames.
Proof. reflexivity. Qed.

Lemma merge_mergeStringSliceEquivalent_skeleton : gen_merge_mergeStringSliceEquivalent = verified_merge_mergeStringSliceEquivalent.
Proof. reflexivity. Qed.

Lemma merge_mergeTypesEqual_skeleton : gen_merge_mergeTypesEqual = verified_merge_mergeTypesEqual.
Proof. reflexivity. Qed.

Lemma merge_mergeValuesEqual_skeleton : gen_merge_mergeValuesEqual = verified_merge_mergeValuesEqual.
Proof. reflexivity. Qed.

Lemma merge_mergeArgumentListEqual_skeleton : gen_merge_mergeArgumentListEqual = verified_merge_mergeArgumentListEqual.
Proof. reflexivity. Qed.

Lemma merge_mergeArgumentsEqual_skeleton : gen_merge_mergeArgumentsEqual = verified_merge_mergeArgumentsEqual.
Proof. reflexivity. Qed.

Lemma merge_mergeArgumentDefinitions_skeleton : gen_merge_mergeArgumentDefinitions = verified_merge_mergeArgumentDefinitions.
Proof. reflexivity. Qed.

Lemma merge_mergeSchemas_skeleton : gen_merge_mergeSchemas = verified_merge_mergeSchemas.
Proof. reflexivity. Qed.

Lemma gateway_fieldURLs_skeleton : gen_gateway_fieldURLs = verified_gateway_fieldURLs.
Proof. reflexivity. Qed.

Lemma gateway_URLFor_skeleton : gen_gateway_URLFor = verified_gateway_URLFor.
Proof. reflexivity. Qed.

Lemma gateway_Concat_skeleton : gen_gateway_Concat = verified_gateway_Concat.
Proof. reflexivity. Qed.

Lemma gateway_RegisterURL_skeleton : gen_gateway_RegisterURL = verified_gateway_RegisterURL.
Proof. reflexivity. Qed.

Lemma gateway_keyFor_skeleton : gen_gateway_keyFor = verified_gateway_keyFor.
Proof. reflexivity. Qed.

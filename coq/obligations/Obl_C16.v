(* Regenerated obligations for C16 (batches: one goroutine per operation, each result stored under its own index; the model Gw/Http.v was written from these skeletons). *)
From Coq Require Import String.
From Gen Require Import Skeletons.
From GW Require Import Verified VerifiedBodies.

Lemma http_GraphQLHandler_skeleton : gen_http_GraphQLHandler = verified_http_GraphQLHandler.
Proof. reflexivity. Qed.

Lemma http_setResultFunc_skeleton : gen_http_setResultFunc = verified_http_setResultFunc.
Proof. reflexivity. Qed.

Lemma http_executeRequest_skeleton : gen_http_executeRequest = verified_http_executeRequest.
Proof. reflexivity. Qed.

(* bodies with their conditions (VerifiedBodies.v) *)
Lemma http_GraphQLHandler_cond_body : gen_http_GraphQLHandler_cond = verified_http_GraphQLHandler_cond.
Proof. reflexivity. Qed.

Lemma http_executeRequest_cond_body : gen_http_executeRequest_cond = verified_http_executeRequest_cond.
Proof. reflexivity. Qed.

Lemma http_parseOperations_body : gen_http_parseOperations = verified_http_parseOperations.
Proof. reflexivity. Qed.

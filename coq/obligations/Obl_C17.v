(* Regenerated obligations for C17 (the lookup of the plan by operation name is an exact comparison, first match in document order). *)
From Coq Require Import String.
From Gen Require Import Skeletons.
From GW Require Import VerifiedDecisions Verified VerifiedBodies.

Lemma plan_ForOperation_skeleton : gen_plan_ForOperation = verified_plan_ForOperation.
Proof. reflexivity. Qed.

(* Gateway.Execute: a single plan is run whatever the name; otherwise the name is required and looked up *)
Lemma gateway_Execute_skeleton : gen_gateway_Execute = verified_gateway_Execute.
Proof. reflexivity. Qed.

(* bodies with their conditions (VerifiedBodies.v) *)
Lemma plan_generateScrubFields_body : gen_plan_generateScrubFields = verified_plan_generateScrubFields.
Proof. reflexivity. Qed.

Lemma plan_Plan_body : gen_plan_Plan = verified_plan_Plan.
Proof. reflexivity. Qed.

Lemma gateway_Execute_cond_body : gen_gateway_Execute_cond = verified_gateway_Execute_cond.
Proof. reflexivity. Qed.

Lemma gateway_GetPlans_body : gen_gateway_GetPlans = verified_gateway_GetPlans.
Proof. reflexivity. Qed.

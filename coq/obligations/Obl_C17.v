(* Regenerated obligations for C17 (the lookup of the plan by operation name is an exact comparison, first match in document order). *)
From Coq Require Import String.
From Gen Require Import Skeletons.
From GW Require Import VerifiedDecisions Verified.

Lemma plan_ForOperation_skeleton : gen_plan_ForOperation = verified_plan_ForOperation.
Proof. reflexivity. Qed.

(* Gateway.Execute: a single plan is run whatever the name; otherwise the name is required and looked up *)
Lemma gateway_Execute_skeleton : gen_gateway_Execute = verified_gateway_Execute.
Proof. reflexivity. Qed.

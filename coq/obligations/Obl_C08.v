(* Regenerated obligations for C08: the work-list model Gw/PlanLTS.v was written from this skeleton
   of generatePlans -- per operation one loop that takes the first pending step, builds it
   (extractSelection), returns on its error, and otherwise goes on; no goroutine, no channel, no
   wait group -- and from extractSelection, whose only way to add a step is an append to the list
   the loop drains ((Append *config.steps)). *)
From Coq Require Import String.
From Gen Require Import Skeletons.
From GW Require Import Verified VerifiedBodies.

Lemma plan_generatePlans_skeleton : gen_plan_generatePlans = verified_plan_generatePlans.
Proof. reflexivity. Qed.

Lemma plan_extractSelection_skeleton : gen_plan_extractSelection = verified_plan_extractSelection.
Proof. reflexivity. Qed.

(* bodies with their conditions (VerifiedBodies.v) *)
Lemma plan_extractSelection_cond_body : gen_plan_extractSelection_cond = verified_plan_extractSelection_cond.
Proof. reflexivity. Qed.

Lemma plan_generatePlans_cond_body : gen_plan_generatePlans_cond = verified_plan_generatePlans_cond.
Proof. reflexivity. Qed.

Lemma plan_Plan_body : gen_plan_Plan = verified_plan_Plan.
Proof. reflexivity. Qed.

(* Regenerated obligations for C14 (the introspection resolvers of internal.go). *)
From Coq Require Import String.
From Gen Require Import Skeletons.
From GW Require Import VerifiedBodies.

Lemma internal_Query_body : gen_internal_Query = verified_internal_Query.
Proof. reflexivity. Qed.

Lemma internal_introspectSchema_body : gen_internal_introspectSchema = verified_internal_introspectSchema.
Proof. reflexivity. Qed.

Lemma internal_introspectType_body : gen_internal_introspectType = verified_internal_introspectType.
Proof. reflexivity. Qed.

Lemma internal_introspectField_body : gen_internal_introspectField = verified_internal_introspectField.
Proof. reflexivity. Qed.

Lemma internal_deprecationReason_body : gen_internal_deprecationReason = verified_internal_deprecationReason.
Proof. reflexivity. Qed.

Lemma internal_introspectEnumValue_body : gen_internal_introspectEnumValue = verified_internal_introspectEnumValue.
Proof. reflexivity. Qed.

Lemma internal_introspectDirective_body : gen_internal_introspectDirective = verified_internal_introspectDirective.
Proof. reflexivity. Qed.

Lemma internal_introspectInputValue_body : gen_internal_introspectInputValue = verified_internal_introspectInputValue.
Proof. reflexivity. Qed.

Lemma internal_introspectInputValueSlice_body : gen_internal_introspectInputValueSlice = verified_internal_introspectInputValueSlice.
Proof. reflexivity. Qed.

Lemma internal_introspectFieldSlice_body : gen_internal_introspectFieldSlice = verified_internal_introspectFieldSlice.
Proof. reflexivity. Qed.

Lemma internal_introspectEnumValueSlice_body : gen_internal_introspectEnumValueSlice = verified_internal_introspectEnumValueSlice.
Proof. reflexivity. Qed.

Lemma internal_introspectTypeSlice_body : gen_internal_introspectTypeSlice = verified_internal_introspectTypeSlice.
Proof. reflexivity. Qed.

Lemma internal_introspectDirectiveSlice_body : gen_internal_introspectDirectiveSlice = verified_internal_introspectDirectiveSlice.
Proof. reflexivity. Qed.

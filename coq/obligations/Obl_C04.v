(* Regenerated obligations for C04 (scrubInsertionIDs: the walk that removes the injected ids; the model Gw/Points.v scrub_location was written from this skeleton). *)
From Coq Require Import String.
From Gen Require Import Skeletons.
From GW Require Import Verified VerifiedBodies.

Lemma middlewares_scrubInsertionIDs_skeleton : gen_middlewares_scrubInsertionIDs = verified_middlewares_scrubInsertionIDs.
Proof. reflexivity. Qed.

(* bodies with their conditions (VerifiedBodies.v) *)
Lemma plan_extractSelection_cond_body : gen_plan_extractSelection_cond = verified_plan_extractSelection_cond.
Proof. reflexivity. Qed.

Lemma plan_generateScrubFields_body : gen_plan_generateScrubFields = verified_plan_generateScrubFields.
Proof. reflexivity. Qed.

Lemma plan_generateScrubFieldsWalk_body : gen_plan_generateScrubFieldsWalk = verified_plan_generateScrubFieldsWalk.
Proof. reflexivity. Qed.

Lemma plan_containsPath_body : gen_plan_containsPath = verified_plan_containsPath.
Proof. reflexivity. Qed.

Lemma execute_executorFindInsertionPoints_cond_body : gen_execute_executorFindInsertionPoints_cond = verified_execute_executorFindInsertionPoints_cond.
Proof. reflexivity. Qed.

Lemma middlewares_scrubInsertionIDs_cond_body : gen_middlewares_scrubInsertionIDs_cond = verified_middlewares_scrubInsertionIDs_cond.
Proof. reflexivity. Qed.

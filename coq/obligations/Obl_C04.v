(* Regenerated obligations for C04 (scrubInsertionIDs: the walk that removes the injected ids; the model Gw/Points.v scrub_location was written from this skeleton). *)
From Coq Require Import String.
From Gen Require Import Skeletons.
From GW Require Import Verified.

Lemma middlewares_scrubInsertionIDs_skeleton : gen_middlewares_scrubInsertionIDs = verified_middlewares_scrubInsertionIDs.
Proof. reflexivity. Qed.

(* Regenerated obligations for C15 (the handler: the order of its checks and what each failure path does; the model Gw/Http.v was written from these skeletons). *)
From Coq Require Import String.
From Gen Require Import Skeletons.
From GW Require Import Verified.

Lemma http_GraphQLHandler_skeleton : gen_http_GraphQLHandler = verified_http_GraphQLHandler.
Proof. reflexivity. Qed.

Lemma http_setResultFunc_skeleton : gen_http_setResultFunc = verified_http_setResultFunc.
Proof. reflexivity. Qed.

Lemma http_executeRequest_skeleton : gen_http_executeRequest = verified_http_executeRequest.
Proof. reflexivity. Qed.

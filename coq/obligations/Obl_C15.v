(* Regenerated obligations for C15 (the handler: the order of its checks and what each failure path does; the model Gw/Http.v was written from these skeletons). *)
From Coq Require Import String.
From Gen Require Import Skeletons.
From GW Require Import Verified VerifiedBodies.

Lemma http_GraphQLHandler_skeleton : gen_http_GraphQLHandler = verified_http_GraphQLHandler.
Proof. reflexivity. Qed.

Lemma http_setResultFunc_skeleton : gen_http_setResultFunc = verified_http_setResultFunc.
Proof. reflexivity. Qed.

Lemma http_executeRequest_skeleton : gen_http_executeRequest = verified_http_executeRequest.
Proof. reflexivity. Qed.

(* bodies with their conditions (VerifiedBodies.v) *)
Lemma http_formatErrors_body : gen_http_formatErrors = verified_http_formatErrors.
Proof. reflexivity. Qed.

Lemma http_formatErrorsWithCode_body : gen_http_formatErrorsWithCode = verified_http_formatErrorsWithCode.
Proof. reflexivity. Qed.

Lemma http_GraphQLHandler_cond_body : gen_http_GraphQLHandler_cond = verified_http_GraphQLHandler_cond.
Proof. reflexivity. Qed.

Lemma http_executeRequest_cond_body : gen_http_executeRequest_cond = verified_http_executeRequest_cond.
Proof. reflexivity. Qed.

Lemma http_parseRequest_body : gen_http_parseRequest = verified_http_parseRequest.
Proof. reflexivity. Qed.

Lemma http_parseGetRequest_body : gen_http_parseGetRequest = verified_http_parseGetRequest.
Proof. reflexivity. Qed.

Lemma http_parsePostRequest_body : gen_http_parsePostRequest = verified_http_parsePostRequest.
Proof. reflexivity. Qed.

Lemma http_parseOperations_body : gen_http_parseOperations = verified_http_parseOperations.
Proof. reflexivity. Qed.

Lemma http_emitResponse_body : gen_http_emitResponse = verified_http_emitResponse.
Proof. reflexivity. Qed.

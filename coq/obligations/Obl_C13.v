(* Regenerated obligations for C13 (grouping per location, one task per realised insertion point). *)
From Coq Require Import String.
From Gen Require Import Skeletons.
From GW Require Import VerifiedBodies.

Lemma plan_groupSelectionSet_body : gen_plan_groupSelectionSet = verified_plan_groupSelectionSet.
Proof. reflexivity. Qed.

Lemma execute_executeOneStep_body : gen_execute_executeOneStep = verified_execute_executeOneStep.
Proof. reflexivity. Qed.

Lemma execute_executorFindInsertionPoints_cond_body : gen_execute_executorFindInsertionPoints_cond = verified_execute_executorFindInsertionPoints_cond.
Proof. reflexivity. Qed.

(* Regenerated obligations for C02 (the wrapper chain, the step queue, the follow-up query and the variables one step forwards). *)
From Coq Require Import String.
From Gen Require Import Skeletons.
From GW Require Import VerifiedBodies.

Lemma plan_wrapSelectionSet_body : gen_plan_wrapSelectionSet = verified_plan_wrapSelectionSet.
Proof. reflexivity. Qed.

Lemma plan_generatePlans_cond_body : gen_plan_generatePlans_cond = verified_plan_generatePlans_cond.
Proof. reflexivity. Qed.

Lemma plan_plannerBuildQuery_body : gen_plan_plannerBuildQuery = verified_plan_plannerBuildQuery.
Proof. reflexivity. Qed.

Lemma execute_executeOneStep_body : gen_execute_executeOneStep = verified_execute_executeOneStep.
Proof. reflexivity. Qed.

(* Regenerated obligations for C12: the model Gw/Cache.v was written from this skeleton of
   AutomaticQueryPlanCache.Retrieve (look up by the client's key first; plan; store under the
   key; the sweep's condition; the sweeper election) and from these constants. *)
From Coq Require Import String.
From Gen Require Import Skeletons.
From GW Require Import Verified VerifiedBodies.

Lemma cache_Retrieve_skeleton : gen_cache_Retrieve = verified_cache_Retrieve.
Proof. reflexivity. Qed.

Lemma cache_not_found_message : gen_const_MessageMissingCachedQuery = verified_const_MessageMissingCachedQuery.
Proof. reflexivity. Qed.

Lemma cache_default_ttl : gen_const_defaultTTL = verified_const_defaultTTL.
Proof. reflexivity. Qed.

(* bodies with their conditions (VerifiedBodies.v) *)
Lemma gateway_GetPlans_body : gen_gateway_GetPlans = verified_gateway_GetPlans.
Proof. reflexivity. Qed.

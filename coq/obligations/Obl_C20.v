(* Regenerated obligations for C20 (the chooser: a single candidate, the gateway itself, then the configured priorities). *)
From Coq Require Import String.
From Gen Require Import Skeletons.
From GW Require Import VerifiedDecisions.

Lemma plan_selectLocation_skeleton : gen_plan_selectLocation = verified_plan_selectLocation.
Proof. reflexivity. Qed.

(* Regenerated obligations for C20 (the chooser: a single candidate, the gateway itself, then the configured priorities). *)
From Coq Require Import String.
From Gen Require Import Skeletons.
From GW Require Import VerifiedDecisions VerifiedBodies.

Lemma plan_selectLocation_skeleton : gen_plan_selectLocation = verified_plan_selectLocation.
Proof. reflexivity. Qed.

(* bodies with their conditions (VerifiedBodies.v) *)
Lemma plan_groupSelectionSet_body : gen_plan_groupSelectionSet = verified_plan_groupSelectionSet.
Proof. reflexivity. Qed.

Lemma plan_wrapSelectionSet_body : gen_plan_wrapSelectionSet = verified_plan_wrapSelectionSet.
Proof. reflexivity. Qed.

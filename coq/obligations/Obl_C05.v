(* Regenerated obligations for C05: the LTS Gw/ExecLTS.v was written from these skeletons of
   ParallelExecutor.Execute (bounded result channel; one wait-group Add per root step before it is
   started; a single collector goroutine that stitches, records the error itself and calls Done;
   Wait; return) and of executeStep (call; Add(len(dependents)) BEFORE the send; send; then spawn
   the dependents), and from the channel capacity. *)
From Coq Require Import String.
From Gen Require Import Skeletons.
From GW Require Import Verified VerifiedBodies.

Lemma execute_Execute_skeleton : gen_execute_Execute = verified_execute_Execute.
Proof. reflexivity. Qed.

Lemma execute_executeStep_skeleton : gen_execute_executeStep = verified_execute_executeStep.
Proof. reflexivity. Qed.

Lemma result_channel_capacity : gen_const_maxResultBuffer = verified_const_maxResultBuffer.
Proof. reflexivity. Qed.

(* bodies with their conditions (VerifiedBodies.v) *)
Lemma execute_executorExtractValue_cond_body : gen_execute_executorExtractValue_cond = verified_execute_executorExtractValue_cond.
Proof. reflexivity. Qed.

Lemma execute_executorInsertObject_cond_body : gen_execute_executorInsertObject_cond = verified_execute_executorInsertObject_cond.
Proof. reflexivity. Qed.

Lemma execute_executorMergeObject_body : gen_execute_executorMergeObject = verified_execute_executorMergeObject.
Proof. reflexivity. Qed.

Lemma execute_executorMergeValue_body : gen_execute_executorMergeValue = verified_execute_executorMergeValue.
Proof. reflexivity. Qed.

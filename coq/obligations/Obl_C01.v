(* Regenerated obligations for C01 (the planner's grouping and extraction, the follow-up query, one executor step's insertion points and the stitching). *)
From Coq Require Import String.
From Gen Require Import Skeletons.
From GW Require Import VerifiedBodies.

Lemma plan_groupSelectionSet_body : gen_plan_groupSelectionSet = verified_plan_groupSelectionSet.
Proof. reflexivity. Qed.

Lemma plan_extractSelection_cond_body : gen_plan_extractSelection_cond = verified_plan_extractSelection_cond.
Proof. reflexivity. Qed.

Lemma plan_plannerBuildQuery_body : gen_plan_plannerBuildQuery = verified_plan_plannerBuildQuery.
Proof. reflexivity. Qed.

Lemma execute_findSelection_body : gen_execute_findSelection = verified_execute_findSelection.
Proof. reflexivity. Qed.

Lemma execute_executorFindInsertionPoints_cond_body : gen_execute_executorFindInsertionPoints_cond = verified_execute_executorFindInsertionPoints_cond.
Proof. reflexivity. Qed.

Lemma execute_isListElement_body : gen_execute_isListElement = verified_execute_isListElement.
Proof. reflexivity. Qed.

Lemma execute_executorExtractValue_cond_body : gen_execute_executorExtractValue_cond = verified_execute_executorExtractValue_cond.
Proof. reflexivity. Qed.

Lemma execute_executorMergeObject_body : gen_execute_executorMergeObject = verified_execute_executorMergeObject.
Proof. reflexivity. Qed.

Lemma execute_executorMergeValue_body : gen_execute_executorMergeValue = verified_execute_executorMergeValue.
Proof. reflexivity. Qed.

Lemma execute_executorGetPointData_body : gen_execute_executorGetPointData = verified_execute_executorGetPointData.
Proof. reflexivity. Qed.

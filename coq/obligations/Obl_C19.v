(* Regenerated obligations for C19 (the gateway's Execute (response middlewares) and executeOneStep (request middlewares)). *)
From Coq Require Import String.
From Gen Require Import Skeletons.
From GW Require Import VerifiedBodies.

Lemma execute_executeOneStep_body : gen_execute_executeOneStep = verified_execute_executeOneStep.
Proof. reflexivity. Qed.

Lemma gateway_Execute_cond_body : gen_gateway_Execute_cond = verified_gateway_Execute_cond.
Proof. reflexivity. Qed.

package main

// C11 at the HTTP layer: the operations of one batch are requests of their own.  A gateway with
// the automatic plan cache answers a batch in which some operations carry the hash of their own
// text and some do not; every entry must be the answer the same operation gets when it is the
// only request a fresh gateway ever sees (no plan, key or variable of a neighbour in it).

import (
	"bytes"
	"crypto/sha256"
	"encoding/hex"
	"encoding/json"
	"fmt"
	"math/rand"
	"net/http"
	"net/http/httptest"
	"time"

	"github.com/nautilus/gateway"
	"github.com/vektah/gqlparser/v2"
)

type c11BatchCase struct {
	Fed    *FedSpec                 `json:"federation"`
	Salt   uint32                   `json:"salt"`
	Ops    []map[string]interface{} `json:"operations"`
	Hashed []bool                   `json:"carries_its_hash"`
}

func postJSON(gw *gateway.Gateway, body interface{}) (int, interface{}) {
	b, _ := json.Marshal(body)
	req := httptest.NewRequest(http.MethodPost, "/graphql", bytes.NewReader(b))
	req.Header.Set("Content-Type", "application/json")
	rec := httptest.NewRecorder()
	done := make(chan struct{})
	go func() {
		defer close(done)
		defer func() { _ = recover() }()
		gw.GraphQLHandler(rec, req)
	}()
	select {
	case <-done:
	case <-time.After(8 * time.Second):
		return -1, "handler did not return within 8s"
	}
	var v interface{}
	if err := json.Unmarshal(rec.Body.Bytes(), &v); err != nil {
		return rec.Code, "not JSON: " + rec.Body.String()
	}
	return rec.Code, v
}

func c11BatchCases(cfg *runCfg, r *rand.Rand, sh *Sharder, doc *CasesDoc, id *int, n int, only *c11BatchCase) error {
	for i := 0; i < n; i++ {
		cs := only
		if cs == nil {
			g := &fedGen{r: r, MultiHomePct: 20}
			cs = &c11BatchCase{Fed: g.Spec(), Salt: r.Uint32()}
		}
		newFed := func() (*Fed, error) {
			st := genStore(rand.New(rand.NewSource(int64(cs.Salt))), cs.Fed, false)
			return NewFed(cs.Fed, st, rand.New(rand.NewSource(int64(cs.Salt))), gateway.WithAutomaticQueryPlanCache())
		}
		fed, err := newFed()
		if err != nil {
			return fmt.Errorf("federation does not build: %v", err)
		}
		if only == nil {
			k := 2 + r.Intn(3)
			for tries := 0; len(cs.Ops) < k && tries < 40; tries++ {
				kn := fedKnobs(r, "C11")
				kn.Mutation = false
				kn.MultiOp = 1
				q := genQuery(r, cs.Fed, fed.Store, kn)
				if _, verr := gqlparser.LoadQuery(fed.Cap.Schema, q.Text); verr != nil {
					continue
				}
				op := map[string]interface{}{"query": q.Text, "operationName": q.OpName}
				if len(q.Vars) > 0 {
					op["variables"] = q.Vars
				}
				hashed := r.Intn(2) == 0
				if len(cs.Ops) == 0 {
					hashed = true // a hashed operation first: whatever key it leaves behind, the next one finds
				}
				if len(cs.Ops) == 1 {
					hashed = false
				}
				if hashed {
					sum := sha256.Sum256([]byte(q.Text))
					op["extensions"] = map[string]interface{}{"persistedQuery": map[string]interface{}{"version": 1, "sha256Hash": hex.EncodeToString(sum[:])}}
				}
				cs.Ops = append(cs.Ops, op)
				cs.Hashed = append(cs.Hashed, hashed)
			}
			if len(cs.Ops) < 2 {
				continue
			}
		}
		cfg.Crumb("http-batch-one-cache", cs)
		body := []interface{}{}
		for _, op := range cs.Ops {
			body = append(body, op)
		}
		code, batch := postJSON(fed.GW, body)
		list, _ := batch.([]interface{})
		c := sh.File()
		pairs := []string{}
		for j, op := range cs.Ops {
			solo, err := newFed()
			if err != nil {
				return err
			}
			_, alone := postJSON(solo.GW, op)
			var entry interface{} = "no such entry"
			if j < len(list) {
				entry = list[j]
			}
			pairs = append(pairs, "("+c.JSON(entry)+", "+c.JSON(alone)+")")
		}
		c.Printf("Eval vm_compute in (\"%d\"%%string, true, Nat.eqb %d %d && forallb (fun p => json_equiv (fst p) (snd p)) [%s], @nil nat).\n",
			*id, len(list), len(cs.Ops), joinStrs(pairs, ";\n "))
		key, _ := json.Marshal(cs)
		doc.Dist[fmt.Sprintf("http-batch:%d-operations", len(cs.Ops))]++
		doc.Cases = append(doc.Cases, CaseInfo{ID: *id, Kind: "http-batch-one-cache", Input: cs,
			Observed: map[string]interface{}{"status": code, "entries": len(list)}, Nontrivial: true, Key: "hb" + string(key)})
		*id++
		if only != nil {
			break
		}
	}
	return nil
}

func joinStrs(l []string, sep string) string {
	out := ""
	for i, s := range l {
		if i > 0 {
			out += sep
		}
		out += s
	}
	return out
}

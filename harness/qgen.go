package main

// Query generator: documents valid by construction against the merged schema of a FedSpec
// (and re-validated with gqlparser by the caller).

import (
	"fmt"
	"math/rand"
	"sort"
	"strings"
)

type qKnobs struct {
	Depth         int
	NamedFrags    bool // named fragment spreads
	InlineFrags   bool
	Untyped       bool // untyped inline fragments
	Directives    bool
	FragDirs      bool // directives on fragments / spreads
	Variables     bool
	VarNamedID    bool // may call a variable "id"
	Aliases       bool
	AliasShadow   bool // aliases equal to other field names
	AliasID       bool // alias "id" on a non-id field, or id under an alias
	Typename      bool
	RepeatKeys    bool
	NodeField     bool
	Mutation      bool
	MultiOp       int // number of operations (>=1)
	MaxFields     int
	FragSameType  bool // named fragments only on the exact object type
	DirLeafOnly   bool // @skip/@include only on leaf fields other than id
	NullVars      bool // nullable variables are sometimes bound to an explicit null
	ReuseVarNames bool // operations of one document number their variables from v0 again
	NoNestedFrag  bool // no fragment spread inside a fragment definition
	NoID          bool // the client never asks for id (every id in a response was put there by the planner)
}

type GenQuery struct {
	Text   string                 `json:"query"`
	OpName string                 `json:"operation_name"`
	Vars   map[string]interface{} `json:"variables"`
	Ops    []string               `json:"operations"`
	Feats  map[string]int         `json:"features"`
	// per operation: its own text and the fragments it (transitively) uses
	OpTexts []string   `json:"operation_texts,omitempty"`
	OpFrags [][]string `json:"operation_fragments,omitempty"`
	OpVars  [][]string `json:"operation_variables,omitempty"`
	// per operation: its own variable values (operations of one document may declare the same
	// variable name with different types; only the executed operation's values are sent)
	OpVals []map[string]interface{} `json:"operation_values,omitempty"`
}

// ValsFor returns the variable values to send when operation i is executed
func (q *GenQuery) ValsFor(i int) map[string]interface{} {
	if i >= 0 && i < len(q.OpVals) {
		return q.OpVals[i]
	}
	return q.Vars
}

type qGen struct {
	r       *rand.Rand
	f       *FedSpec
	st      *Store
	k       qKnobs
	frags   []string
	nfrag   int
	varDefs map[string]string
	// default values of some of the variables that are also given a value (so that the default
	// never decides an answer, but has to travel with the definition all the same)
	varDefault map[string]string
	vars       map[string]interface{}
	feats      map[string]int
	nvar       int
	nalias     int
	budget     int // fields still allowed in this document
}

func (g *qGen) pct(p int) bool { return g.r.Intn(100) < p }

func (g *qGen) directive() string {
	if !g.k.Directives || !g.pct(12) {
		return ""
	}
	g.feats["directive"]++
	name := []string{"skip", "include"}[g.r.Intn(2)]
	if g.k.Variables && g.pct(50) {
		v := g.newVar("Boolean!", g.r.Intn(2) == 0)
		return fmt.Sprintf(" @%s(if: $%s)", name, v)
	}
	return fmt.Sprintf(" @%s(if: %v)", name, g.r.Intn(2) == 0)
}

// directiveAlways is directive() without the 12% gate
func (g *qGen) directiveAlways() string {
	if !g.k.Directives {
		return ""
	}
	g.feats["directive"]++
	name := []string{"skip", "include"}[g.r.Intn(2)]
	if g.k.Variables && g.pct(50) {
		v := g.newVar("Boolean!", g.r.Intn(2) == 0)
		return fmt.Sprintf(" @%s(if: $%s)", name, v)
	}
	return fmt.Sprintf(" @%s(if: %v)", name, g.r.Intn(2) == 0)
}

func (g *qGen) newVar(typ string, val interface{}) string {
	g.feats["variable"]++
	// reuse an existing variable of the same type sometimes
	if g.pct(30) {
		names := []string{}
		for n, t := range g.varDefs {
			if t == typ {
				names = append(names, n)
			}
		}
		sort.Strings(names)
		if len(names) > 0 {
			return names[g.r.Intn(len(names))]
		}
	}
	name := fmt.Sprintf("v%d", g.nvar)
	g.nvar++
	if g.k.VarNamedID && typ == "String" {
		if _, used := g.varDefs["id"]; !used && g.pct(25) {
			name = "id"
			g.feats["var-named-id"]++
		}
	}
	g.varDefs[name] = typ
	switch {
	case !strings.HasSuffix(typ, "!") && g.pct(10): // sometimes leave a nullable variable unset
		if typ == "String" && g.pct(50) {
			// ... with a default: every server that sees the variable left out computes with the default
			g.varDefault[name] = "\"dflt\""
			g.feats["unset-variable-with-default"]++
		}
	case !strings.HasSuffix(typ, "!") && g.k.NullVars && g.pct(15): // or bind it to an explicit null
		g.vars[name] = nil
		g.feats["null-variable"]++
		if typ == "String" && g.pct(50) {
			// ... which overrides the default the variable declares
			g.varDefault[name] = "\"dflt\""
			g.feats["null-variable-with-default"]++
		}
	default:
		g.vars[name] = val
		if g.pct(30) {
			switch strings.TrimSuffix(typ, "!") {
			case "String":
				g.varDefault[name] = "\"dflt\""
			case "Boolean":
				g.varDefault[name] = "true"
			}
			if g.varDefault[name] != "" {
				g.feats["variable-default"]++
			}
		}
	}
	return name
}

func (g *qGen) args(fl *FieldSpec) string {
	if len(fl.Args) == 0 {
		return ""
	}
	a := fl.Args[0]
	if g.pct(25) {
		return ""
	}
	if g.k.Variables && g.pct(50) {
		v := g.newVar("String", []string{"p", "q r", "ü", "7%d %s", "100%"}[g.r.Intn(5)])
		return fmt.Sprintf("(%s: $%s)", a.Name, v)
	}
	return fmt.Sprintf("(%s: %q)", a.Name, []string{"lit", "a b", ""}[g.r.Intn(3)])
}

// fieldsOf returns the selectable fields of a type (with id)
func (g *qGen) fieldsOf(t *TypeSpec) []*FieldSpec {
	out := []*FieldSpec{}
	if t.Kind != "ROOT" {
		out = append(out, &FieldSpec{Name: "id", Type: TypeRef{Named: "ID", NonNull: true}})
	}
	for _, fl := range t.Fields {
		if fl.Name != "id" {
			out = append(out, fl)
		}
	}
	if g.k.NoID && len(out) > 1 && t.Kind != "ROOT" {
		out = out[1:]
	}
	return out
}

func (g *qGen) alias(t *TypeSpec, fl *FieldSpec) string {
	if !g.k.Aliases || !g.pct(22) {
		return ""
	}
	g.feats["alias"]++
	if g.k.AliasID && g.pct(15) && fl.Name != "id" {
		g.feats["alias-id"]++
		return "id: "
	}
	if g.k.AliasShadow && g.pct(30) {
		fs := g.fieldsOf(t)
		g.feats["alias-shadow"]++
		return fs[g.r.Intn(len(fs))].Name + "_: "
	}
	g.nalias++
	return fmt.Sprintf("al%d: ", g.nalias)
}

func (g *qGen) field(t *TypeSpec, fl *FieldSpec, depth int) string {
	al := g.alias(t, fl)
	args := g.args(fl)
	if g.k.DirLeafOnly && (!scalarNames[fl.Type.Named] || fl.Name == "id") {
		s := al + fl.Name + args
		if scalarNames[fl.Type.Named] {
			return s
		}
		return s + " " + g.selectionSet(g.f.Type(fl.Type.Named), depth-1)
	}
	if al == "" && args != "" && g.pct(85) {
		// the same field with different arguments must not share a response key
		g.nalias++
		al = fmt.Sprintf("ar%d: ", g.nalias)
	}
	s := al + fl.Name + args + g.directive()
	if scalarNames[fl.Type.Named] {
		return s
	}
	target := g.f.Type(fl.Type.Named)
	return s + " " + g.selectionSet(target, depth-1)
}

func (g *qGen) selectionSet(t *TypeSpec, depth int) string {
	return "{ " + strings.Join(g.selections(t, depth, true), " ") + " }"
}

// implementers of an interface
func (g *qGen) impls(name string) []*TypeSpec {
	var out []*TypeSpec
	for _, c := range g.f.Types {
		if c.Kind == "OBJECT" && contains(c.Ifaces, name) {
			out = append(out, c)
		}
	}
	return out
}

func (g *qGen) selections(t *TypeSpec, depth int, top bool) []string {
	fs := g.fieldsOf(t)
	max := g.k.MaxFields
	if max == 0 {
		max = 4
	}
	n := 1 + g.r.Intn(max)
	out := []string{}
	for i := 0; i < n; i++ {
		fl := fs[g.r.Intn(len(fs))]
		if g.k.NamedFrags && depth >= 1 && g.pct(50) {
			// documents with named fragments look for the fields of an abstract type: a fragment declared on
			// an implementer and spread where the interface is selected has another type than its surroundings
			for _, cand := range fs {
				if tt := g.f.Type(cand.Type.Named); tt != nil && tt.Kind == "INTERFACE" {
					fl = cand
					break
				}
			}
		}
		g.budget--
		if g.budget < 0 {
			depth = 0
			if i > 0 {
				break
			}
		}
		if depth <= 0 && !scalarNames[fl.Type.Named] {
			// at the bottom only scalars (id is always there -- unless the client never asks for it: then
			// some other scalar if the type has one)
			fl = &FieldSpec{Name: "id", Type: TypeRef{Named: "ID", NonNull: true}}
			for _, cand := range fs {
				if scalarNames[cand.Type.Named] {
					fl = cand
					break
				}
			}
			if t.Kind == "ROOT" {
				continue
			}
		}
		one := g.field(t, fl, depth)
		// wrappers
		switch p := g.r.Intn(100); {
		case p < 12 && g.k.InlineFrags && t.Kind != "ROOT":
			g.feats["inline"]++
			more := ""
			if g.pct(40) {
				more = " " + strings.Join(g.selections(t, depth, false), " ")
			}
			dir := ""
			if g.k.FragDirs {
				dir = g.directive()
				if dir == "" && g.pct(35) {
					dir = g.directiveAlways()
				}
			}
			if g.pct(30) {
				// a fragment inside the fragment: what leaves for another service is re-wrapped in both
				g.feats["nested-inline"]++
				if g.k.FragDirs && dir == "" {
					dir = g.directiveAlways()
				}
				if g.k.Untyped && g.pct(30) {
					one = fmt.Sprintf("... { %s }", one)
				} else {
					one = fmt.Sprintf("... on %s { %s }", t.Name, one)
				}
			}
			one = fmt.Sprintf("... on %s%s { %s%s }", t.Name, dir, one, more)
			if dir != "" && g.pct(65) {
				// the join id selected plainly next to the conditional fragment
				out = append(out, "id")
			}
		case p < 17 && g.k.Untyped:
			g.feats["untyped-inline"]++
			one = fmt.Sprintf("... { %s }", one)
		case p < 30 && g.k.NamedFrags && t.Kind != "ROOT":
			g.feats["spread"]++
			name := fmt.Sprintf("F%d", g.nfrag)
			g.nfrag++
			more := ""
			if g.pct(50) {
				saved := g.k.NamedFrags
				if g.k.NoNestedFrag {
					g.k.NamedFrags = false
				}
				more = " " + strings.Join(g.selections(t, depth, false), " ")
				g.k.NamedFrags = saved
			}
			body := one + more
			if g.k.InlineFrags && depth >= 1 && g.pct(30) {
				// a deep wrapper chain: the fragment holds an inline fragment with an object field that has
				// an inline fragment of its own, then a sibling that reaches its fields only through two
				// more inline fragments -- what is re-wrapped for another service below the sibling must
				// carry the sibling's own chain and nothing of the field before it
				var objs []*FieldSpec
				for _, fl2 := range g.fieldsOf(t) {
					if !scalarNames[fl2.Type.Named] {
						objs = append(objs, fl2)
					}
				}
				if len(objs) > 0 {
					g.feats["deep-wrapper"]++
					fl2 := objs[g.r.Intn(len(objs))]
					tt := g.f.Type(fl2.Type.Named)
					g.nalias++
					inner := strings.Join(g.selections(tt, depth-1, false), " ")
					sib := strings.Join(g.selections(t, depth-1, false), " ")
					body = fmt.Sprintf("... on %s { dw%d: %s%s { ... on %s { %s } } ... on %s { ... on %s { %s } } } %s",
						t.Name, g.nalias, fl2.Name, g.args(fl2), tt.Name, inner, t.Name, t.Name, sib, body)
				}
			}
			g.frags = append(g.frags, fmt.Sprintf("fragment %s on %s { %s }", name, t.Name, body))
			dir := ""
			if g.k.FragDirs {
				dir = g.directive()
			}
			one = "..." + name + dir
		}
		out = append(out, one)
	}
	if t.Kind == "INTERFACE" && g.k.InlineFrags && g.budget > 0 {
		for _, c := range g.impls(t.Name) {
			if g.pct(60) {
				if g.k.NamedFrags && g.pct(60) {
					// a named fragment declared on an implementer, spread where the interface is selected
					g.feats["spread-on-impl"]++
					name := fmt.Sprintf("F%d", g.nfrag)
					g.nfrag++
					saved := g.k.NamedFrags
					if g.k.NoNestedFrag {
						g.k.NamedFrags = false
					}
					body := strings.Join(g.selections(c, depth, false), " ")
					g.k.NamedFrags = saved
					if g.pct(70) {
						// the plain case: every scalar of the implementer (they usually live at several services),
						// nothing nested, nothing repeated -- the fragment's type differs from the enclosing type
						// and that is all
						parts := []string{}
						for _, sf := range g.fieldsOf(c) {
							if scalarNames[sf.Type.Named] && sf.Name != "id" {
								parts = append(parts, sf.Name+g.args(sf))
							}
						}
						if len(parts) > 0 {
							g.feats["spread-on-impl-plain"]++
							body = strings.Join(parts, " ")
						}
					}
					g.frags = append(g.frags, fmt.Sprintf("fragment %s on %s { %s }", name, c.Name, body))
					out = append(out, "..."+name)
					continue
				}
				g.feats["inline-on-impl"]++
				out = append(out, fmt.Sprintf("... on %s { %s }", c.Name, strings.Join(g.selections(c, depth, false), " ")))
			}
		}
	}
	if g.k.Depth >= 4 && depth == g.k.Depth-3 && depth >= 1 && t.Kind != "ROOT" && g.pct(60) {
		// two sibling object fields three keys down, each holding every scalar of its type: when
		// they cross services both are join points whose paths share a four-key prefix
		var objs []*FieldSpec
		for _, fl2 := range g.fieldsOf(t) {
			if !scalarNames[fl2.Type.Named] {
				objs = append(objs, fl2)
			}
		}
		if len(objs) > 0 {
			g.feats["deep-siblings"]++
			fl2 := objs[g.r.Intn(len(objs))]
			tt := g.f.Type(fl2.Type.Named)
			for _, pre := range []string{"dsa", "dsb"} {
				parts := []string{}
				for _, sf := range g.fieldsOf(tt) {
					if scalarNames[sf.Type.Named] && sf.Name != "id" {
						parts = append(parts, sf.Name+g.args(sf))
					}
				}
				if len(parts) == 0 {
					parts = []string{"id"}
				}
				g.nalias++
				out = append(out, fmt.Sprintf("%s%d: %s%s { %s }", pre, g.nalias, fl2.Name, g.args(fl2), strings.Join(parts, " ")))
			}
		}
	}
	if g.k.RepeatKeys && depth >= 2 && t.Kind != "ROOT" && g.budget > 0 && g.pct(12) {
		// one response key selected twice with different sub-selections (the answers merge): the first
		// goes one object deeper than the second, so that when both cross services the deeper
		// insertion point is met before its own prefix
	search:
		for _, fl2 := range g.fieldsOf(t) {
			if scalarNames[fl2.Type.Named] {
				continue
			}
			tt := g.f.Type(fl2.Type.Named)
			if tt == nil {
				continue
			}
			for _, fl3 := range g.fieldsOf(tt) {
				t3 := g.f.Type(fl3.Type.Named)
				if scalarNames[fl3.Type.Named] || t3 == nil {
					continue
				}
				sc := func(x *TypeSpec) []string {
					parts := []string{}
					for _, sf := range g.fieldsOf(x) {
						if scalarNames[sf.Type.Named] && sf.Name != "id" {
							parts = append(parts, sf.Name+g.args(sf))
						}
					}
					if len(parts) == 0 {
						parts = []string{"id"}
					}
					return parts
				}
				g.nalias++
				key := fmt.Sprintf("rk%d", g.nalias)
				a2 := g.args(fl2)
				g.feats["same-key-two-depths"]++
				out = append(out, fmt.Sprintf("%s: %s%s { %s%s { %s } }", key, fl2.Name, a2, fl3.Name, g.args(fl3), strings.Join(sc(t3), " ")))
				out = append(out, fmt.Sprintf("%s: %s%s { %s }", key, fl2.Name, a2, strings.Join(sc(tt), " ")))
				break search
			}
		}
	}
	if g.k.Typename && g.pct(15) {
		g.feats["typename"]++
		out = append(out, "__typename")
	}
	if g.k.RepeatKeys && len(out) > 0 && g.pct(10) {
		g.feats["repeat"]++
		out = append(out, out[g.r.Intn(len(out))])
	}
	if len(out) == 0 {
		if t.Kind == "ROOT" {
			out = append(out, "hello")
		} else {
			out = append(out, "id")
		}
	}
	return out
}

func (g *qGen) operation(name string, mutation bool) string {
	g.varDefs = map[string]string{}
	g.varDefault = map[string]string{}
	root := g.f.Type("Query")
	kw := "query"
	if mutation {
		root = g.f.Type("Mutation")
		kw = "mutation"
	}
	sels := g.selections(root, g.k.Depth, true)
	if !mutation && g.k.NodeField && g.pct(25) && len(g.st.Objs) > 0 {
		o := g.st.Objs[g.r.Intn(len(g.st.Objs))]
		g.feats["node"]++
		idArg := fmt.Sprintf("%q", o.ID)
		if g.k.Variables && g.pct(50) {
			v := g.newVar("ID!", o.ID)
			if _, bound := g.vars[v]; bound && g.pct(30) {
				// a nullable variable with a default may stand where a non-null argument is expected
				g.varDefs[v] = "ID"
				g.varDefault[v] = fmt.Sprintf("%q", o.ID)
				g.feats["defaulted-variable-in-non-null-position"]++
			}
			idArg = "$" + v
		}
		sels = append(sels, fmt.Sprintf("node(id: %s) { id ... on %s { %s } }", idArg, o.Type, strings.Join(g.selections(g.f.Type(o.Type), g.k.Depth-1, false), " ")))
	}
	defs := []string{}
	names := []string{}
	for n := range g.varDefs {
		names = append(names, n)
	}
	sort.Strings(names)
	for _, n := range names {
		if d := g.varDefault[n]; d != "" {
			defs = append(defs, fmt.Sprintf("$%s: %s = %s", n, g.varDefs[n], d))
			continue
		}
		defs = append(defs, fmt.Sprintf("$%s: %s", n, g.varDefs[n]))
	}
	vd := ""
	if len(defs) > 0 {
		vd = "(" + strings.Join(defs, ", ") + ")"
	}
	return fmt.Sprintf("%s %s%s { %s }", kw, name, vd, strings.Join(sels, " "))
}

// Gen produces one document. Variables of all operations share one map (names are unique).
func genQuery(r *rand.Rand, f *FedSpec, st *Store, k qKnobs) *GenQuery {
	g := &qGen{r: r, f: f, st: st, k: k, vars: map[string]interface{}{}, feats: map[string]int{}, budget: 12 + r.Intn(50)}
	nops := 1
	if k.MultiOp > 1 {
		nops = 1 + r.Intn(k.MultiOp)
	}
	q := &GenQuery{Vars: g.vars, Feats: g.feats}
	ops := []string{}
	for i := 0; i < nops; i++ {
		name := fmt.Sprintf("Op%d", i)
		if i > 0 && k.MultiOp > 1 && g.pct(25) {
			// GraphQL names are case sensitive: a later operation whose name is an earlier one's up to case
			name = strings.ToLower(fmt.Sprintf("Op%d", g.r.Intn(i)))
			for _, o := range q.Ops {
				if o == name {
					name = fmt.Sprintf("Op%d", i)
				}
			}
			if name != fmt.Sprintf("Op%d", i) {
				g.feats["operation-name-equal-up-to-case"]++
			}
		}
		mut := k.Mutation && f.Type("Mutation") != nil && g.pct(30)
		if mut {
			g.feats["mutation"]++
		}
		before := len(g.frags)
		if k.ReuseVarNames {
			g.nvar = 0
		}
		if nops > 1 {
			g.vars = map[string]interface{}{}
		}
		text := g.operation(name, mut)
		if nops > 1 {
			q.OpVals = append(q.OpVals, g.vars)
			for n, v := range g.vars {
				q.Vars[n] = v
			}
		}
		ops = append(ops, text)
		q.Ops = append(q.Ops, name)
		q.OpTexts = append(q.OpTexts, text)
		q.OpFrags = append(q.OpFrags, append([]string{}, g.frags[before:]...))
		vn := []string{}
		for n := range g.varDefs {
			vn = append(vn, n)
		}
		sort.Strings(vn)
		q.OpVars = append(q.OpVars, vn)
	}
	if nops == 1 && g.pct(30) {
		// anonymous-style single operation still has a name; sometimes execute without naming it
		q.OpName = ""
	} else {
		q.OpName = q.Ops[r.Intn(nops)]
	}
	q.Text = strings.Join(append(ops, g.frags...), "\n")
	return q
}

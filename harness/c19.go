package main

import (
	"context"
	"encoding/json"
	"fmt"
	"hash/fnv"
	"math/rand"
	"net/http"
	"sort"
	"strconv"
	"strings"
	"sync"
	"time"

	"github.com/nautilus/gateway"
	"github.com/nautilus/graphql"
	"github.com/vektah/gqlparser/v2"
	"github.com/vektah/gqlparser/v2/ast"
	"github.com/vektah/gqlparser/v2/parser"
)

func init() { props["C19"] = runC19 }

const c19Header = `From Coq Require Import String List ZArith.
Import ListNotations.
From GW Require Import Base.Res Base.Json Gw.Middleware.
Local Open Scope string_scope.
`

type c19MW struct {
	Kind  string `json:"kind"` // resp | req
	ID    int    `json:"id"`
	Edit  bool   `json:"edit,omitempty"`
	Fails bool   `json:"fails,omitempty"`
}

type c19Case struct {
	Fed     *FedSpec               `json:"federation"`
	Query   *GenQuery              `json:"query"`
	MWs     []c19MW                `json:"middlewares"`
	Split   int                    `json:"with_middlewares_split"`
	FaultPc int                    `json:"fault_percent"`
	Salt    uint32                 `json:"fault_salt"`
	OptSeed int64                  `json:"option_order_seed"`
	Store   map[string]interface{} `json:"-"`
}

type recExecutor struct {
	inner gateway.Executor
	mu    sync.Mutex
	data  map[string]interface{}
	err   error
	ran   bool
}

func (e *recExecutor) Execute(ctx *gateway.ExecutionContext) (map[string]interface{}, error) {
	d, err := e.inner.Execute(ctx)
	e.mu.Lock()
	e.data, e.err, e.ran = d, err, true
	e.mu.Unlock()
	return d, err
}

type c19Rec struct {
	mu   sync.Mutex
	log  []int
	seen []interface{}
}

func faultFor(salt uint32, pct int, c *Call) string {
	h := fnv.New32a()
	// the planner prints a step's variable definitions in Go-map order: hash the query as a multiset of bytes
	qb := []byte(c.Query)
	sort.Slice(qb, func(i, j int) bool { return qb[i] < qb[j] })
	fmt.Fprintf(h, "%d|%s|%s|%v", salt, c.Service, qb, c.Vars["id"])
	v := int(h.Sum32() % 1000)
	if v >= pct*10 {
		return FaultNone
	}
	return []string{FaultTransport, FaultPartial, FaultErrsNull}[v%3]
}

// c19SelectsNoID: no field named or aliased id, no directive, no variable called id in the document
func c19SelectsNoID(text string) bool {
	d, err := parser.ParseQuery(&ast.Source{Input: text})
	if err != nil {
		return false
	}
	ok := true
	var walk func(ss ast.SelectionSet)
	walk = func(ss ast.SelectionSet) {
		for _, s := range ss {
			switch x := s.(type) {
			case *ast.Field:
				if x.Name == "id" || x.Alias == "id" || len(x.Directives) > 0 {
					ok = false
				}
				walk(x.SelectionSet)
			case *ast.InlineFragment:
				if len(x.Directives) > 0 {
					ok = false
				}
				walk(x.SelectionSet)
			case *ast.FragmentSpread:
				ok = false
			}
		}
	}
	for _, op := range d.Operations {
		for _, v := range op.VariableDefinitions {
			if v.Variable == "id" {
				ok = false
			}
		}
		walk(op.SelectionSet)
	}
	return ok && len(d.Operations) == 1
}

func (c *CoqFile) c19Data(v interface{}) string {
	switch x := v.(type) {
	case nil:
		return "None"
	case map[string]interface{}:
		if x == nil {
			return "None"
		}
		return "(Some " + c.JSONMap(x) + ")"
	}
	return "None"
}

func runC19(cfg *runCfg) error {
	n := cfg.N
	if n == 0 {
		n = 350
		if cfg.Tier == "thorough" {
			n = 6000
		}
	}
	r := rand.New(rand.NewSource(cfg.Seed))
	sh := NewSharder(cfg.Out, "cases_C19", c19Header, 200_000)
	doc := &CasesDoc{Property: "C19", Seed: cfg.Seed, Tier: cfg.Tier, Dist: map[string]int{}}
	var replay *c19Case
	if cfg.Replay != "" {
		var rp struct {
			Case struct {
				Input c19Case `json:"input"`
			} `json:"case"`
		}
		if err := readJSON(cfg.Replay, &rp); err != nil {
			return err
		}
		replay = &rp.Case.Input
		n = 1
	}
	id := 0
	for i := 0; i < n; i++ {
		var cs *c19Case
		if replay != nil {
			cs = replay
		} else {
			g := &fedGen{r: r, MultiHomePct: []int{0, 20, 45}[r.Intn(3)], Iface: false}
			cs = &c19Case{Fed: g.Spec(), OptSeed: r.Int63(), Salt: r.Uint32(), FaultPc: []int{0, 0, 15, 40, 100}[r.Intn(5)]}
			nm := r.Intn(6)
			for k := 0; k < nm; k++ {
				if r.Intn(3) == 0 {
					cs.MWs = append(cs.MWs, c19MW{Kind: "req", ID: 100 + k})
				} else {
					cs.MWs = append(cs.MWs, c19MW{Kind: "resp", ID: 10 + k, Edit: r.Intn(2) == 0, Fails: r.Intn(6) == 0})
				}
			}
			if nm > 1 {
				cs.Split = r.Intn(nm + 1)
			}
		}
		st := genStore(rand.New(rand.NewSource(int64(cs.Salt))), cs.Fed, false)
		rec := &c19Rec{}
		mk := func(m c19MW) gateway.Middleware {
			if m.Kind == "req" {
				id := m.ID
				return gateway.RequestMiddleware(func(req *http.Request) error {
					req.Header.Add("X-Mw", strconv.Itoa(id))
					return nil
				})
			}
			mm := m
			return gateway.ResponseMiddleware(func(ctx *gateway.ExecutionContext, response map[string]interface{}) error {
				rec.mu.Lock()
				defer rec.mu.Unlock()
				rec.log = append(rec.log, mm.ID)
				if response == nil {
					rec.seen = append(rec.seen, nil)
				} else {
					rec.seen = append(rec.seen, deepCopy(response))
				}
				if mm.Edit && response != nil {
					response[fmt.Sprintf("mw%d", mm.ID)] = float64(mm.ID)
				}
				if mm.Fails {
					return fmt.Errorf("middleware %d says no", mm.ID)
				}
				return nil
			})
		}
		var first, second []gateway.Middleware
		for k, m := range cs.MWs {
			if k < cs.Split {
				first = append(first, mk(m))
			} else {
				second = append(second, mk(m))
			}
		}
		exec := &recExecutor{inner: &gateway.ParallelExecutor{}}
		opts := []gateway.Option{gateway.WithExecutor(exec)}
		if len(first) > 0 {
			opts = append(opts, gateway.WithMiddlewares(first...))
		}
		opts = append(opts, gateway.WithMiddlewares(second...))
		// the relative order of the two WithMiddlewares options is the registration order: keep it, shuffle the rest
		fed, err := newFedKeepOrder(cs.Fed, st, rand.New(rand.NewSource(cs.OptSeed)), opts)
		if err != nil {
			return fmt.Errorf("federation %d does not build: %v", i, err)
		}
		fed.Ctl.Fault = func(c *Call) string { return faultFor(cs.Salt, cs.FaultPc, c) }
		q := cs.Query
		if replay == nil {
			kn := c20Knobs(r)
			kn.NamedFrags = false // fragments spanning services are a known planner limitation (see C01)
			if r.Intn(3) == 0 {
				// a client that never asks for id, two or three levels deep: whatever id a response
				// middleware sees at any of the join places was injected
				kn.NoID, kn.Directives, kn.Depth, kn.Mutation = true, false, 2+r.Intn(2), false
			}
			q = genQuery(r, cs.Fed, st, kn)
			cs.Query = q
		}
		if _, verr := gqlparser.LoadQuery(fed.Cap.Schema, q.Text); verr != nil {
			doc.Dist["generator:invalid-query"]++
			continue
		}
		type result struct {
			data           map[string]interface{}
			planErr, exErr error
		}
		cfg.Crumb("request", map[string]interface{}{"query": q.Text, "operation": q.OpName, "variables": q.Vars})
		ch := make(chan result, 1)
		go func() {
			d, pe, ee := fed.Run(context.Background(), q.Text, q.OpName, q.Vars)
			ch <- result{d, pe, ee}
		}()
		var res result
		select {
		case res = <-ch:
		case <-time.After(10 * time.Second):
			doc.Dist["hang"]++
			continue
		}
		if res.planErr != nil {
			doc.Dist["plan-error"]++
			continue
		}
		// classify the final error
		exec.mu.Lock()
		execErr := exec.err != nil
		exec.mu.Unlock()
		errCode := "None"
		scrubFails := false
		if res.exErr != nil {
			msg := res.exErr.Error()
			switch {
			case strings.HasPrefix(msg, "middleware ") && strings.HasSuffix(msg, " says no"):
				var k int
				fmt.Sscanf(msg, "middleware %d says no", &k)
				errCode = fmt.Sprintf("(Some %d)", k+1)
			case execErr && msg == exec.err.Error():
				errCode = "(Some 0)"
			default:
				// an error that is neither a middleware's nor the executor's: the built-in scrubber failed
				scrubFails = true
				errCode = "(Some 1)"
			}
		}
		c := sh.File()
		mws := []string{}
		for _, m := range cs.MWs {
			if m.Kind == "req" {
				mws = append(mws, fmt.Sprintf("MReq %d", m.ID))
			} else {
				edit := "None"
				if m.Edit {
					edit = fmt.Sprintf("(Some (%s, JNum %s))", c.S(fmt.Sprintf("mw%d", m.ID)), c.S(strconv.Itoa(m.ID)))
				}
				mws = append(mws, fmt.Sprintf("MResp {| rm_id := %d; rm_edit := %s; rm_fails := %s |}", m.ID, edit, coqBool(m.Fails)))
			}
		}
		seen := []string{}
		for _, s := range rec.seen {
			seen = append(seen, c.c19Data(s))
		}
		logs := []string{}
		for _, l := range rec.log {
			logs = append(logs, strconv.Itoa(l))
		}
		calls := []string{}
		ncap := 0
		fed.Ctl.mu.Lock()
		for _, cl := range fed.Ctl.Calls {
			ids := []string{}
			for _, x := range cl.ReqMWs {
				ids = append(ids, strconv.Itoa(x))
			}
			calls = append(calls, "["+strings.Join(ids, "; ")+"]")
			if cl.ViaMW {
				ncap++
			}
			if cl.Fault != "" {
				doc.Dist["fault:"+cl.Fault]++
			}
		}
		ncalls := len(fed.Ctl.Calls)
		fed.Ctl.mu.Unlock()
		final := "None"
		if res.data != nil {
			final = c.c19Data(map[string]interface{}(res.data))
		}
		obs := fmt.Sprintf("{| ob_scrub_fails := %s; ob_exec_err := %s; ob_log := [%s]; ob_seen := [%s]; ob_data := %s; ob_err := %s; ob_calls := [%s] |}",
			coqBool(scrubFails), coqBool(execErr), strings.Join(logs, "; "), strings.Join(seen, "; "), final, errCode, strings.Join(calls, "; "))
		oracle := fmt.Sprintf("property_holds [%s] %s", strings.Join(mws, "; "), obs)
		if !execErr && c19SelectsNoID(q.Text) {
			// the client asks for no id anywhere (and uses no directive and no variable called id, which
			// are known planner limitations, see C04): every id the middlewares see was injected
			oracle = "andb (" + oracle + ") (ids_removed " + obs + ")"
			doc.Dist["ids-removed-clause"]++
		}
		c.Printf("Eval vm_compute in (\"%d\"%%string, model_agrees [%s] %s, %s).\n", id, strings.Join(mws, "; "), obs, oracle)
		key, _ := json.Marshal(cs)
		nresp := 0
		for _, m := range cs.MWs {
			if m.Kind == "resp" {
				nresp++
			}
		}
		doc.Cases = append(doc.Cases, CaseInfo{ID: id, Kind: "execute", Input: cs,
			Observed:   map[string]interface{}{"log": rec.log, "error": fmt.Sprint(res.exErr), "executor_failed": execErr, "calls": ncalls, "data": res.data},
			Nontrivial: len(cs.MWs) >= 2 && ncalls >= 1, Key: string(key)})
		doc.Dist[fmt.Sprintf("middlewares:%d", len(cs.MWs))]++
		if execErr {
			doc.Dist["executor-failed"]++
		}
		if scrubFails {
			doc.Dist["scrubber-failed"]++
		}
		if errCode != "None" && errCode != "(Some 0)" && !scrubFails {
			doc.Dist["middleware-failed"]++
		}
		if res.data == nil && execErr {
			doc.Dist["executor-failed-no-data"]++
		}
		doc.Dist[fmt.Sprintf("calls>1:%v", ncalls > 1)]++
		_ = ncap
		id++
	}
	if err := sh.Flush(); err != nil {
		return err
	}
	doc.Shards = sh.Files
	return doc.Write(cfg.Out)
}

// newFedKeepOrder is NewFed with the extra options kept in their given relative order while
// being interleaved at random with the built-in ones
func newFedKeepOrder(spec *FedSpec, st *Store, r *rand.Rand, extra []gateway.Option) (*Fed, error) {
	f := &Fed{Spec: spec, Store: st, Ctl: &Controller{}, Svcs: map[string]*Service{}, SDL: map[string]string{}}
	srcs := []*graphql.RemoteSchema{}
	for _, name := range spec.Services {
		sdl := spec.SDL(name)
		f.SDL[name] = sdl
		sch, err := graphql.LoadSchema(sdl)
		if err != nil {
			return nil, fmt.Errorf("service %s schema: %v\n%s", name, err, sdl)
		}
		f.Svcs[name] = &Service{Name: name, Schema: sch, Store: st, Ctl: f.Ctl}
		srcs = append(srcs, &graphql.RemoteSchema{Schema: sch, URL: name})
	}
	qf := gateway.QueryerFactory(func(ctx *gateway.PlanningContext, url string) graphql.Queryer { return f.Svcs[url] })
	f.Cap = &capPlanner{inner: &gateway.MinQueriesPlanner{}}
	base := []gateway.Option{gateway.WithPlanner(f.Cap), gateway.WithQueryerFactory(&qf), gateway.WithLogger(fedLogger{f})}
	if spec.HasPrio {
		base = append(base, gateway.WithLocationPriorities(spec.Priorities))
	}
	r.Shuffle(len(base), func(i, j int) { base[i], base[j] = base[j], base[i] })
	opts := []gateway.Option{}
	bi, ei := 0, 0
	for bi < len(base) || ei < len(extra) {
		if ei >= len(extra) || (bi < len(base) && r.Intn(2) == 0) {
			opts = append(opts, base[bi])
			bi++
		} else {
			opts = append(opts, extra[ei])
			ei++
		}
	}
	gw, err := gateway.New(srcs, opts...)
	if err != nil {
		return nil, err
	}
	f.GW = gw
	_, _ = gw.GetPlans(&gateway.RequestContext{Context: context.Background(), Query: "{ __typename }"})
	return f, nil
}

package main

import (
	"bytes"
	"context"
	"encoding/json"
	"fmt"
	"math/rand"
	"mime/multipart"
	"net/http"
	"net/http/httptest"
	"strconv"
	"strings"
	"sync"

	"github.com/nautilus/gateway"
	"github.com/nautilus/graphql"
)

func init() { props["C18"] = runC18 }

const c18Header = `From Coq Require Import String List ZArith.
Import ListNotations.
From GW Require Import Base.Res Base.Json Gw.Inject.
Local Open Scope string_scope.
`

var c18Keys = []string{"a", "b", "f", "files", "in", "0", "1", "x y", "é", "file", "-1"}

type c18Gen struct{ r *rand.Rand }

func (g *c18Gen) value(depth int) interface{} {
	p := g.r.Intn(100)
	switch {
	case p < 32:
		return nil
	case p < 40:
		return []string{"s", "", "null", "0"}[g.r.Intn(4)]
	case p < 46:
		return float64(g.r.Intn(5))
	case p < 50:
		return g.r.Intn(2) == 0
	case p < 76 && depth > 0:
		return g.object(depth - 1)
	case depth > 0:
		n := g.r.Intn(4)
		l := make([]interface{}, n)
		for i := range l {
			l[i] = g.value(depth - 1)
		}
		return l
	default:
		return nil
	}
}

func (g *c18Gen) object(depth int) map[string]interface{} {
	n := 1 + g.r.Intn(4)
	m := map[string]interface{}{}
	for i := 0; i < n; i++ {
		m[c18Keys[g.r.Intn(len(c18Keys))]] = g.value(depth)
	}
	return m
}

// positions lists every position of the tree as textual parts with its value
type c18Pos struct {
	parts []string
	val   interface{}
}

func c18Positions(v interface{}, prefix []string, acc *[]c18Pos) {
	switch x := v.(type) {
	case map[string]interface{}:
		for _, k := range sortedKeys(x) {
			p := append(append([]string{}, prefix...), k)
			*acc = append(*acc, c18Pos{p, x[k]})
			c18Positions(x[k], p, acc)
		}
	case []interface{}:
		for i, e := range x {
			p := append(append([]string{}, prefix...), strconv.Itoa(i))
			*acc = append(*acc, c18Pos{p, e})
			c18Positions(e, p, acc)
		}
	}
}

func sortedKeys(m map[string]interface{}) []string {
	keys := make([]string, 0, len(m))
	for k := range m {
		keys = append(keys, k)
	}
	sortStrings(keys)
	return keys
}

type c18Op struct {
	Nil  bool                   `json:"nil,omitempty"`
	Vars map[string]interface{} `json:"variables"`
}

type c18File struct {
	Name  string   `json:"name"`
	Paths []string `json:"paths"`
}

// c18FieldName is the multipart field name of the i-th file: the client's choice (the map refers to
// it), so not always "0".."n-1": numbered from one, or named
func c18FieldName(n, i int) string {
	switch n % 3 {
	case 1:
		return strconv.Itoa(i + 1)
	case 2:
		return "file" + string(rune('a'+i%26)) + strconv.Itoa(i/26)
	}
	return strconv.Itoa(i)
}

type c18Input struct {
	Batch bool      `json:"batch"`
	Ops   []c18Op   `json:"ops"`
	Files []c18File `json:"files"`
	HTTP  bool      `json:"http"`
}

type c18Obs struct {
	Class string        `json:"class"`
	Ops   []interface{} `json:"ops,omitempty"`
	Note  string        `json:"note,omitempty"`
}

func (g *c18Gen) path(in *c18Input, tags map[string]int) string {
	idx := g.r.Intn(len(in.Ops))
	var pos []c18Pos
	if !in.Ops[idx].Nil {
		c18Positions(in.Ops[idx].Vars, nil, &pos)
	}
	var nulls, others []c18Pos
	for _, p := range pos {
		if p.val == nil {
			nulls = append(nulls, p)
		} else {
			others = append(others, p)
		}
	}
	parts := []string{"x"}
	valid := false
	if len(nulls) > 0 {
		parts = append([]string{}, nulls[g.r.Intn(len(nulls))].parts...)
		valid = true
	}
	prefix := []string{"variables"}
	batchPart := strconv.Itoa(idx)
	hasBatch := in.Batch
	mut := g.r.Intn(100)
	tag := "valid"
	switch {
	case mut < 58:
	case mut < 62 && len(others) > 0:
		parts = append([]string{}, others[g.r.Intn(len(others))].parts...)
		tag = "nonnull-or-container"
	case mut < 66:
		parts = append(parts, []string{"x", "0", "a", "b"}[g.r.Intn(4)])
		tag = "past-target"
	case mut < 69 && len(parts) > 1:
		parts = parts[:len(parts)-1]
		tag = "container"
	case mut < 73:
		parts[g.r.Intn(len(parts))] = []string{"zz", "-1", "99", "+0", "00", "01", "+1", "1e0", " 1", "", "0x1", "9223372036854775808", "-9223372036854775809"}[g.r.Intn(13)]
		tag = "bad-part"
	case mut < 77:
		// numeric aliases of a list index keep designating it
		for i, p := range parts {
			if _, err := strconv.Atoi(p); err == nil && g.r.Intn(2) == 0 {
				parts[i] = []string{"+", "0", "00"}[g.r.Intn(3)] + p
			}
		}
		tag = "index-alias"
	case mut < 80:
		prefix = [][]string{{}, {"variable"}, {"Variables"}, {"variables", "variables"}, {""}}[g.r.Intn(5)]
		tag = "bad-prefix"
	case mut < 86:
		batchPart = []string{"-1", strconv.Itoa(len(in.Ops)), "99", "x", "", "+0", "00", "-0"}[g.r.Intn(8)]
		hasBatch = true
		tag = "batch-index"
	case mut < 89:
		hasBatch = !hasBatch
		tag = "batch-flip"
	case mut < 92:
		tags["degenerate"]++
		return []string{"", "variables", "0", "0.variables", ".", "variables.", "..", "0.", "1"}[g.r.Intn(9)]
	case mut < 95 && len(parts) > 0:
		i := g.r.Intn(len(parts) + 1)
		parts = append(parts[:i], append([]string{""}, parts[i:]...)...)
		tag = "empty-segment"
	default:
	}
	if !valid && tag == "valid" {
		tag = "no-null"
	}
	tags[tag]++
	all := append(append([]string{}, prefix...), parts...)
	if hasBatch {
		all = append([]string{batchPart}, all...)
	}
	return strings.Join(all, ".")
}

func (g *c18Gen) input() (*c18Input, map[string]int) {
	tags := map[string]int{}
	in := &c18Input{Batch: g.r.Intn(100) < 45}
	nops := 1
	if in.Batch {
		nops = 1 + g.r.Intn(3)
	}
	for i := 0; i < nops; i++ {
		op := c18Op{}
		switch p := g.r.Intn(100); {
		case p < 4:
			op.Nil = true
		case p < 10:
			op.Vars = nil
		default:
			op.Vars = g.object(1 + g.r.Intn(3))
		}
		in.Ops = append(in.Ops, op)
	}
	nfiles := 1
	if g.r.Intn(100) < 25 {
		nfiles = 2
	}
	for f := 0; f < nfiles; f++ {
		fl := c18File{Name: fmt.Sprintf("f%d.txt", f)}
		np := 1 + g.r.Intn(3)
		if g.r.Intn(20) == 0 {
			np = 0
		}
		for i := 0; i < np; i++ {
			p := g.path(in, tags)
			if len(fl.Paths) > 0 && g.r.Intn(12) == 0 {
				p = fl.Paths[g.r.Intn(len(fl.Paths))]
				tags["duplicate"]++
			}
			fl.Paths = append(fl.Paths, p)
		}
		in.Files = append(in.Files, fl)
	}
	hasNil := false
	for _, o := range in.Ops {
		hasNil = hasNil || o.Nil
	}
	in.HTTP = !hasNil && g.r.Intn(100) < 35
	return in, tags
}

func deepCopy(v interface{}) interface{} {
	switch x := v.(type) {
	case map[string]interface{}:
		m := make(map[string]interface{}, len(x))
		for k, e := range x {
			m[k] = deepCopy(e)
		}
		return m
	case []interface{}:
		l := make([]interface{}, len(x))
		for i, e := range x {
			l[i] = deepCopy(e)
		}
		return l
	default:
		return v
	}
}

func c18Direct(in *c18Input) (obs c18Obs) {
	ops := make([]*gateway.HTTPOperation, len(in.Ops))
	for i, o := range in.Ops {
		if o.Nil {
			continue
		}
		ops[i] = &gateway.HTTPOperation{Query: "{ hello }"}
		if o.Vars != nil {
			ops[i].Variables = deepCopy(o.Vars).(map[string]interface{})
		}
	}
	defer func() {
		if r := recover(); r != nil {
			obs = c18Obs{Class: "panic", Note: fmt.Sprint(r)}
		}
	}()
	for _, f := range in.Files {
		if err := gateway.VerifInjectFile(ops, graphql.Upload{FileName: f.Name}, f.Paths, in.Batch); err != nil {
			return c18Obs{Class: "err", Note: err.Error()}
		}
	}
	obs.Class = "ok"
	for _, o := range ops {
		if o == nil {
			obs.Ops = append(obs.Ops, nil)
		} else if o.Variables == nil {
			obs.Ops = append(obs.Ops, map[string]interface{}{})
		} else {
			obs.Ops = append(obs.Ops, map[string]interface{}(o.Variables))
		}
	}
	return obs
}

var (
	c18GW     *gateway.Gateway
	c18Mu     sync.Mutex
	c18Seen   map[string]map[string]interface{}
	c18Called int
)

func c18Gateway() (*gateway.Gateway, error) {
	if c18GW != nil {
		return c18GW, nil
	}
	schema, err := graphql.LoadSchema(`type Query { hello: String }`)
	if err != nil {
		return nil, err
	}
	exec := gateway.ExecutorFunc(func(ctx *gateway.ExecutionContext) (map[string]interface{}, error) {
		c18Mu.Lock()
		defer c18Mu.Unlock()
		c18Called++
		c18Seen[ctx.Plan.Operation.Name] = ctx.Variables
		return map[string]interface{}{"hello": "x"}, nil
	})
	gw, err := gateway.New([]*graphql.RemoteSchema{{Schema: schema, URL: "svc"}}, gateway.WithExecutor(exec), gateway.WithLogger(quietLogger{}))
	if err != nil {
		return nil, err
	}
	c18GW = gw
	return gw, nil
}

func c18HTTP(in *c18Input) (obs c18Obs) {
	gw, err := c18Gateway()
	if err != nil {
		return c18Obs{Class: "harness-error", Note: err.Error()}
	}
	opsJSON := []interface{}{}
	for i, o := range in.Ops {
		m := map[string]interface{}{"query": fmt.Sprintf("query op%d { hello }", i), "operationName": fmt.Sprintf("op%d", i)}
		if o.Vars != nil {
			m["variables"] = o.Vars
		}
		opsJSON = append(opsJSON, m)
	}
	var opsBytes []byte
	if in.Batch {
		opsBytes, _ = json.Marshal(opsJSON)
	} else {
		opsBytes, _ = json.Marshal(opsJSON[0])
	}
	fmap := map[string][]string{}
	for i, f := range in.Files {
		fmap[c18FieldName(len(in.Files)+len(in.Ops), i)] = f.Paths
	}
	mapBytes, _ := json.Marshal(fmap)
	var body bytes.Buffer
	w := multipart.NewWriter(&body)
	fw, _ := w.CreateFormField("operations")
	fw.Write(opsBytes)
	fw, _ = w.CreateFormField("map")
	fw.Write(mapBytes)
	for i, f := range in.Files {
		fw, _ = w.CreateFormFile(c18FieldName(len(in.Files)+len(in.Ops), i), f.Name)
		fw.Write([]byte("content"))
	}
	w.Close()
	req := httptest.NewRequest(http.MethodPost, "/graphql", &body)
	req.Header.Set("Content-Type", w.FormDataContentType())
	rec := httptest.NewRecorder()
	c18Mu.Lock()
	c18Seen = map[string]map[string]interface{}{}
	c18Called = 0
	c18Mu.Unlock()
	func() {
		defer func() {
			if r := recover(); r != nil {
				obs = c18Obs{Class: "panic", Note: fmt.Sprint(r)}
			}
		}()
		gw.GraphQLHandler(rec, req.WithContext(context.Background()))
	}()
	if obs.Class == "panic" {
		return obs
	}
	c18Mu.Lock()
	defer c18Mu.Unlock()
	switch rec.Code {
	case http.StatusOK:
		obs.Class = "ok"
		if c18Called != len(in.Ops) {
			obs.Class = "harness-error"
			obs.Note = fmt.Sprintf("executor called %d times for %d operations", c18Called, len(in.Ops))
		}
		for i := range in.Ops {
			v := c18Seen[fmt.Sprintf("op%d", i)]
			if v == nil {
				v = map[string]interface{}{}
			}
			obs.Ops = append(obs.Ops, v)
		}
	case http.StatusUnprocessableEntity:
		obs.Class = "err"
		obs.Note = strings.TrimSpace(rec.Body.String())
		if c18Called != 0 {
			obs.Class = "executed-despite-error"
		}
	default:
		obs.Class = "status-" + strconv.Itoa(rec.Code)
		obs.Note = strings.TrimSpace(rec.Body.String())
	}
	return obs
}

func c18CoqOps(c *CoqFile, ops []c18Op) string {
	parts := make([]string, len(ops))
	for i, o := range ops {
		switch {
		case o.Nil:
			parts[i] = "None"
		case o.Vars == nil:
			parts[i] = "(Some [])"
		default:
			parts[i] = "(Some " + c.JSONMap(o.Vars) + ")"
		}
	}
	return "[" + strings.Join(parts, "; ") + "]"
}

func c18CoqObsOps(c *CoqFile, ops []interface{}) string {
	parts := make([]string, len(ops))
	for i, o := range ops {
		if o == nil {
			parts[i] = "None"
		} else {
			parts[i] = "(Some " + c.JSONMap(o.(map[string]interface{})) + ")"
		}
	}
	return "[" + strings.Join(parts, "; ") + "]"
}

func c18CoqFiles(c *CoqFile, files []c18File) string {
	parts := make([]string, len(files))
	for i, f := range files {
		parts[i] = "(JFile " + c.S(f.Name) + ", " + c.Strs(f.Paths) + ")"
	}
	return "[" + strings.Join(parts, "; ") + "]"
}

func c18Class(s string) string {
	switch s {
	case "ok":
		return "COk"
	case "err":
		return "CErr"
	default:
		return "CPanic"
	}
}

// replaceUploads makes observed variables printable as JSON for cases.json
func replaceUploads(v interface{}) interface{} {
	switch x := v.(type) {
	case map[string]interface{}:
		m := make(map[string]interface{}, len(x))
		for k, e := range x {
			m[k] = replaceUploads(e)
		}
		return m
	case []interface{}:
		l := make([]interface{}, len(x))
		for i, e := range x {
			l[i] = replaceUploads(e)
		}
		return l
	case graphql.Upload:
		return map[string]interface{}{"<file>": x.FileName}
	default:
		return v
	}
}

func c18Corpus() []*c18Input {
	one := func(vars map[string]interface{}, batch bool, paths ...string) *c18Input {
		return &c18Input{Batch: batch, Ops: []c18Op{{Vars: vars}}, Files: []c18File{{Name: "f0.txt", Paths: paths}}}
	}
	n := interface{}(nil)
	l := func(v ...interface{}) []interface{} { return v }
	m := func(kv ...interface{}) map[string]interface{} {
		r := map[string]interface{}{}
		for i := 0; i < len(kv); i += 2 {
			r[kv[i].(string)] = kv[i+1]
		}
		return r
	}
	cs := []*c18Input{
		// the inputs that failed on the pinned tree (DESIGN.md D18, D20 and nested containers)
		one(m("f", l(n)), false, "variables.f.-1"),
		one(m("f", n), true, "1.variables.f"),
		one(m("f", n), true, "-1.variables.f"),
		one(m("f", n), true, "0"),
		one(m("a", n, "b", n), false, "variables.a.b"),
		one(m("a", l(n), "b", n), false, "variables.a.0.b"),
		one(m("files", l(m("file", n))), false, "variables.files.0.file"),
		one(m("f", l(l(n))), false, "variables.f.0.0"),
		{Batch: false, Ops: []c18Op{{Nil: true}}, Files: []c18File{{Name: "f0.txt", Paths: []string{"variables.f"}}}},
		{Batch: true, Ops: []c18Op{{Vars: m("f", n)}, {Nil: true}}, Files: []c18File{{Name: "f0.txt", Paths: []string{"1.variables.f"}}}},
		// ordinary shapes
		one(m("f", n), false, "variables.f"),
		one(m("f", n), false, "variables"),
		one(m("f", n), false, ""),
		one(m("f", n), false, "variables.g"),
		one(m("f", l(n)), false, "variables.f.1"),
		one(m("f", l(n)), false, "variables.f"),
		one(m("f", n), true, "variables.f"),
		one(nil, false, "variables.f"),
		one(m("f", m("g", n)), false, "variables.f.g"),
		one(m("f", n), false, "variables.f.g"),
		one(m("f", l(n, n)), false, "variables.f.0", "variables.f.1"),
		one(m("f", l(n, n)), false, "variables.f.0", "variables.f.0"),
	}
	for i, c := range cs {
		c.HTTP = i%2 == 0
		for _, o := range c.Ops {
			if o.Nil {
				c.HTTP = false
			}
		}
	}
	return cs
}

func runC18(cfg *runCfg) error {
	n := cfg.N
	if n == 0 {
		n = 1500
		if cfg.Tier == "thorough" {
			n = 30000
		}
	}
	g := &c18Gen{r: rand.New(rand.NewSource(cfg.Seed))}
	sh := NewSharder(cfg.Out, "cases_C18", c18Header, 150_000)
	doc := &CasesDoc{Property: "C18", Seed: cfg.Seed, Tier: cfg.Tier, Dist: map[string]int{}}
	var inputs []*c18Input
	if cfg.Replay != "" {
		in, err := c18LoadReplay(cfg.Replay)
		if err != nil {
			return err
		}
		inputs = append(inputs, in)
	} else {
		inputs = append(inputs, c18Corpus()...)
		doc.Dist["corpus"] = len(inputs)
		for i := 0; i < n; i++ {
			in, tags := g.input()
			for k, v := range tags {
				doc.Dist["path:"+k] += v
			}
			inputs = append(inputs, in)
		}
	}
	id := 0
	emit := func(kind string, in *c18Input, obs c18Obs) {
		c := sh.File()
		ops := c18CoqOps(c, in.Ops)
		obsTerm := fmt.Sprintf("{| o_cls := %s; o_ops := %s |}", c18Class(obs.Class), c18CoqObsOps(c, obs.Ops))
		files := c18CoqFiles(c, in.Files)
		model := fmt.Sprintf("model_agrees %s %s %s %s", ops, coqBool(in.Batch), files, obsTerm)
		if kind == "http" && len(in.Files) == 2 {
			// the handler ranges over a Go map of files: either order may have been taken
			rev := c18CoqFiles(c, []c18File{in.Files[1], in.Files[0]})
			model = fmt.Sprintf("orb (%s) (model_agrees %s %s %s %s)", model, ops, coqBool(in.Batch), rev, obsTerm)
		}
		c.Printf("Eval vm_compute in (\"%d\"%%string, %s, property_holds %s %s %s %s).\n", id, model, ops, coqBool(in.Batch), files, obsTerm)
		depth := 0
		npaths := 0
		for _, o := range in.Ops {
			if d := jsonDepth(o.Vars); d > depth {
				depth = d
			}
		}
		for _, f := range in.Files {
			npaths += len(f.Paths)
		}
		key, _ := json.Marshal(in)
		obsJSON := map[string]interface{}{"class": obs.Class, "note": obs.Note}
		if obs.Ops != nil {
			obsJSON["ops"] = replaceUploads(obs.Ops)
		}
		doc.Cases = append(doc.Cases, CaseInfo{ID: id, Kind: kind, Input: in, Observed: obsJSON,
			Nontrivial: npaths > 0 && (depth >= 2 || in.Batch), Key: kind + string(key)})
		doc.Dist["class:"+obs.Class]++
		doc.Dist["kind:"+kind]++
		doc.Dist[fmt.Sprintf("depth:%d", depth)]++
		if in.Batch {
			doc.Dist["batch"]++
		}
		id++
	}
	for _, in := range inputs {
		emit("direct", in, c18Direct(in))
		if in.HTTP {
			emit("http", in, c18HTTP(in))
		}
	}
	if err := sh.Flush(); err != nil {
		return err
	}
	doc.Shards = sh.Files
	return doc.Write(cfg.Out)
}

func jsonDepth(v interface{}) int {
	switch x := v.(type) {
	case map[string]interface{}:
		d := 0
		for _, e := range x {
			if k := jsonDepth(e); k > d {
				d = k
			}
		}
		return d + 1
	case []interface{}:
		d := 0
		for _, e := range x {
			if k := jsonDepth(e); k > d {
				d = k
			}
		}
		return d + 1
	default:
		return 0
	}
}

func c18LoadReplay(path string) (*c18Input, error) {
	var rp struct {
		Case struct {
			Input c18Input `json:"input"`
		} `json:"case"`
	}
	if err := readJSON(path, &rp); err != nil {
		return nil, err
	}
	return &rp.Case.Input, nil
}

// c18HTTPFull posts the multipart request and reports status, body and which operations ran
func c18HTTPFull(in *c18Input) hObs {
	gw, err := c18Gateway()
	if err != nil {
		return hObs{Panic: "harness: " + err.Error()}
	}
	opsJSON := []interface{}{}
	for i, o := range in.Ops {
		m := map[string]interface{}{"query": fmt.Sprintf("query op%d { hello }", i), "operationName": fmt.Sprintf("op%d", i)}
		if o.Vars != nil {
			m["variables"] = o.Vars
		}
		opsJSON = append(opsJSON, m)
	}
	var opsBytes []byte
	if in.Batch {
		opsBytes, _ = json.Marshal(opsJSON)
	} else {
		opsBytes, _ = json.Marshal(opsJSON[0])
	}
	fmap := map[string][]string{}
	for i, f := range in.Files {
		fmap[c18FieldName(len(in.Files)+len(in.Ops), i)] = f.Paths
	}
	mapBytes, _ := json.Marshal(fmap)
	var body bytes.Buffer
	w := multipart.NewWriter(&body)
	fw, _ := w.CreateFormField("operations")
	fw.Write(opsBytes)
	fw, _ = w.CreateFormField("map")
	fw.Write(mapBytes)
	for i, f := range in.Files {
		fw, _ = w.CreateFormFile(c18FieldName(len(in.Files)+len(in.Ops), i), f.Name)
		fw.Write([]byte("content"))
	}
	w.Close()
	req := httptest.NewRequest(http.MethodPost, "/graphql", &body)
	req.Header.Set("Content-Type", w.FormDataContentType())
	rec := httptest.NewRecorder()
	c18Mu.Lock()
	c18Seen = map[string]map[string]interface{}{}
	c18Called = 0
	c18Mu.Unlock()
	obs := hObs{}
	func() {
		defer func() {
			if r := recover(); r != nil {
				obs.Panic = fmt.Sprint(r)
			}
		}()
		gw.GraphQLHandler(rec, req.WithContext(context.Background()))
	}()
	obs.Status = rec.Code
	var v interface{}
	if err := json.Unmarshal(rec.Body.Bytes(), &v); err != nil {
		obs.NotJS = true
		obs.Body = rec.Body.String()
	} else {
		// uploads are not JSON: the recording executor answers {"hello": "x"} only
		obs.Body = v
	}
	c18Mu.Lock()
	for i := range in.Ops {
		_, ok := c18Seen[fmt.Sprintf("op%d", i)]
		obs.Ran = append(obs.Ran, ok)
	}
	obs.Calls = c18Called
	c18Mu.Unlock()
	return obs
}

package main

// C14: introspection tells the truth about the merged schema.  Generated service schema lists (the
// merge universe: objects, interfaces, inputs, enums, unions, scalars, directive definitions,
// descriptions, default values, deprecations) merged by gateway.New; generated selections over the
// introspection types (aliases, repeated keys, inline and named fragments, @skip/@include, variables
// for name / includeDeprecated, __typename everywhere, the canonical full introspection query)
// executed through Gateway.GetPlans + Gateway.Execute; the answer is compared in Coq with the
// specification's (Gw/Introspect.v) on the merged schema captured through WithPlanner.

import (
	"context"
	"encoding/json"
	"fmt"
	"math/rand"
	"os"
	"sort"
	"strings"
	"time"

	"github.com/nautilus/gateway"
	"github.com/nautilus/graphql"
	"github.com/vektah/gqlparser/v2"
	"github.com/vektah/gqlparser/v2/ast"
)

func init() { props["C14"] = runC14 }

const c14Header = `From Coq Require Import String List ZArith Bool.
Import ListNotations.
From GW Require Import Base.Res Base.Json Gql.Syntax Gql.Schema Gql.Spec Gw.Introspect Gw.IntrospectCheck.
Local Open Scope string_scope.
Local Open Scope bool_scope.
`

type c14Case struct {
	Services []*mSvc                `json:"services"`
	Query    string                 `json:"query"`
	Vars     map[string]interface{} `json:"variables"`
	Tags     []string               `json:"tags,omitempty"`
}

// deprecations, a specified scalar and a repeatable directive on top of the merge universe
func introUniverse(uni []*mDef) []*mDef {
	for _, d := range uni {
		switch d.Name {
		case "User":
			for i := range d.Fields {
				if d.Fields[i].Name == "age" {
					d.Fields[i].Dirs = " @deprecated(reason: \"use birthday\")"
				}
				if d.Fields[i].Name == "matrix" {
					d.Fields[i].Dirs = " @deprecated"
				}
			}
			// described arguments: every entry of an argument list has a description of its own (or none)
			for i := range d.Fields {
				if d.Fields[i].Name == "posts" {
					d.Fields[i].Args = "(\"how many\" first: Int = 10, \"with these tags\" tags: [String!] = [\"a\"], after: ID)"
				}
			}
		case "Post":
			for i := range d.Fields {
				if d.Fields[i].Name == "kind" {
					d.Fields[i].Dirs = " @deprecated"
				}
			}
		case "Filter":
			for i := range d.Fields {
				switch d.Fields[i].Name {
				case "q":
					d.Fields[i].Desc = "free text"
				case "limit":
					d.Fields[i].Desc = "at most"
				}
			}
		case "Query":
			for i := range d.Fields {
				if d.Fields[i].Name == "posts" {
					d.Fields[i].Args = "(\"what to look for\" filter: Filter, first: Int = 5)"
				}
			}
		case "Role":
			d.Values = []string{"ADMIN", "USER", "GUEST @deprecated(reason: \"no guests\")"}
		case "Date":
			d.Dirs = " @specifiedBy(url: \"https://example.com/date\")"
		case "tag":
			d.Locs = []string{"FIELD_DEFINITION", "OBJECT", "FIELD", "INTERFACE", "ENUM", "UNION", "ARGUMENT_DEFINITION"}
			d.DirArgs = "(\"the label\" name: String = \"t\", weight: Int) repeatable"
		}
	}
	return uni
}

const fullIntrospection = `query IntrospectionQuery { __schema { queryType { name } mutationType { name } subscriptionType { name }
 types { ...FullType } directives { name description locations args { ...InputValue } } } }
fragment FullType on __Type { kind name description fields(includeDeprecated: true) { name description args { ...InputValue }
 type { ...TypeRef } isDeprecated deprecationReason } inputFields { ...InputValue } interfaces { ...TypeRef }
 enumValues(includeDeprecated: true) { name description isDeprecated deprecationReason } possibleTypes { ...TypeRef } }
fragment InputValue on __InputValue { name description type { ...TypeRef } defaultValue }
fragment TypeRef on __Type { kind name ofType { kind name ofType { kind name ofType { kind name ofType { kind name ofType { kind name ofType { kind name ofType { kind name } } } } } } } }`

// the canonical query with both includeDeprecated flags given by a variable, and the flag asked again
// wherever a type is reached through an input value (arguments, input fields, directive arguments)
const variableIntrospection = `query Deep($all: Boolean!) { __schema { types { kind name
 fields(includeDeprecated: $all) { name isDeprecated args { name type { ...Inner } } type { ...Inner } }
 inputFields { name type { ...Inner } } enumValues(includeDeprecated: $all) { name isDeprecated } }
 directives { name many: isRepeatable isRepeatable args { name type { ...Inner } } } } }
fragment Inner on __Type { kind name enumValues(includeDeprecated: $all) { name } fields(includeDeprecated: $all) { name }
 ofType { kind name enumValues(includeDeprecated: $all) { name } ofType { kind name enumValues(includeDeprecated: $all) { name }
 ofType { kind name enumValues(includeDeprecated: $all) { name } } } } }`

// every list-valued selection of a __Type twice on the same object, once with includeDeprecated and once
// without (and the other way round under other aliases): what one selection is given must not reach
// its neighbours, whichever of them the resolver visits first
const siblingsIntrospection = `query Siblings($yes: Boolean!) { __schema { types { name
 all: fields(includeDeprecated: true) { name } live: fields { name } byVar: fields(includeDeprecated: $yes) { name } no: fields(includeDeprecated: false) { name }
 allValues: enumValues(includeDeprecated: true) { name } liveValues: enumValues { name } valuesByVar: enumValues(includeDeprecated: $yes) { name }
 fields { name args { name d: defaultValue defaultValue t: type { kind name } } }
 inputFields { n: name d: defaultValue } } directives { n: name r: isRepeatable l: locations args { n: name d: defaultValue } } } }`

type iGen struct {
	r      *rand.Rand
	names  []string // type names of the merged schema
	vars   map[string]interface{}
	defs   []string
	frags  []string
	nfrag  int
	nalias int
	budget int
}

func (g *iGen) pct(p int) bool { return g.r.Intn(100) < p }

func (g *iGen) alias(name string) string {
	g.nalias++
	switch g.r.Intn(6) {
	case 0:
		return fmt.Sprintf("a%d: %s", g.nalias, name)
	case 1:
		// an alias that looks like another meta field's name
		return fmt.Sprintf("%s_%d: %s", []string{"name", "kind", "types", "fields", "queryType", "id"}[g.r.Intn(6)], g.nalias, name)
	}
	return name
}

// argAlias: a field with an argument gets an alias of its own, so that two selections of it with
// different arguments never share a response key
func (g *iGen) argAlias(name, arg string) string {
	if arg == "" {
		return g.alias(name)
	}
	g.nalias++
	return fmt.Sprintf("%s%d: %s%s", name[:1], g.nalias, name, arg)
}

func (g *iGen) dir() string {
	switch g.r.Intn(220) {
	case 0:
		return " @skip(if: false)"
	case 1:
		return " @include(if: true)"
	case 2:
		v := fmt.Sprintf("b%d", len(g.defs))
		val := g.r.Intn(2) == 0
		g.defs = append(g.defs, "$"+v+": Boolean!")
		g.vars[v] = val
		return " @skip(if: $" + v + ")"
	case 3:
		return " @skip(if: true)"
	}
	return ""
}

func (g *iGen) boolArg(name string) string {
	switch g.r.Intn(4) {
	case 0:
		return "(" + name + ": true)"
	case 1:
		return "(" + name + ": false)"
	case 2:
		v := fmt.Sprintf("d%d", len(g.defs))
		val := g.r.Intn(2) == 0
		g.defs = append(g.defs, "$"+v+": Boolean")
		g.vars[v] = val
		return "(" + name + ": $" + v + ")"
	}
	return ""
}

// wrap sometimes puts a selection into an inline or named fragment on its type
func (g *iGen) wrap(typ, body string) string {
	switch g.r.Intn(8) {
	case 0:
		return "... on " + typ + " { " + body + " }"
	case 1:
		return "... { " + body + " }"
	case 2:
		n := fmt.Sprintf("F%d", g.nfrag)
		g.nfrag++
		g.frags = append(g.frags, "fragment "+n+" on "+typ+" { "+body+" }")
		return "..." + n
	}
	return body
}

func (g *iGen) pick(all []string, atLeast int) []string {
	out := []string{}
	for _, a := range all {
		if g.pct(45) {
			out = append(out, a)
		}
	}
	for len(out) < atLeast {
		out = append(out, all[g.r.Intn(len(all))])
	}
	if g.pct(25) {
		out = append(out, "__typename")
	}
	if g.pct(15) {
		out = append(out, out[g.r.Intn(len(out))]) // selected twice
	}
	return out
}

func (g *iGen) typeSel(depth int) string {
	parts := []string{}
	for _, f := range g.pick([]string{"kind", "name", "description", "fields", "interfaces", "possibleTypes", "enumValues", "inputFields", "ofType", "specifiedByURL"}, 1) {
		g.budget--
		switch f {
		case "fields":
			if depth > 0 && g.budget > 0 {
				parts = append(parts, g.argAlias("fields", g.boolArg("includeDeprecated"))+g.dir()+" { "+g.fieldSel(depth-1)+" }")
			}
		case "interfaces", "possibleTypes", "ofType":
			if depth > 0 && g.budget > 0 {
				parts = append(parts, g.alias(f)+g.dir()+" { "+g.typeSel(depth-1)+" }")
			}
		case "enumValues":
			if depth > 0 && g.budget > 0 {
				parts = append(parts, g.argAlias(f, g.boolArg("includeDeprecated"))+g.dir()+" { "+strings.Join(g.pick([]string{"name", "description", "isDeprecated", "deprecationReason"}, 1), " ")+" }")
			}
		case "inputFields":
			if depth > 0 && g.budget > 0 {
				parts = append(parts, g.alias(f)+g.dir()+" { "+g.inputSel(depth-1)+" }")
			}
		default:
			parts = append(parts, g.alias(f)+g.dir())
		}
	}
	if len(parts) == 0 {
		parts = []string{"kind"}
	}
	return g.wrap("__Type", strings.Join(parts, " "))
}

func (g *iGen) inputSel(depth int) string {
	parts := []string{}
	for _, f := range g.pick([]string{"name", "description", "type", "defaultValue"}, 1) {
		if f == "type" {
			if depth > 0 {
				parts = append(parts, g.alias(f)+" { "+g.typeSel(depth-1)+" }")
			}
		} else {
			parts = append(parts, g.alias(f)+g.dir())
		}
	}
	if len(parts) == 0 {
		parts = []string{"name"}
	}
	return g.wrap("__InputValue", strings.Join(parts, " "))
}

func (g *iGen) fieldSel(depth int) string {
	parts := []string{}
	for _, f := range g.pick([]string{"name", "description", "args", "type", "isDeprecated", "deprecationReason"}, 1) {
		switch f {
		case "args":
			if depth > 0 {
				parts = append(parts, g.alias(f)+" { "+g.inputSel(depth-1)+" }")
			}
		case "type":
			if depth > 0 {
				parts = append(parts, g.alias(f)+" { "+g.typeSel(depth-1)+" }")
			}
		default:
			parts = append(parts, g.alias(f)+g.dir())
		}
	}
	if len(parts) == 0 {
		parts = []string{"name"}
	}
	return g.wrap("__Field", strings.Join(parts, " "))
}

func (g *iGen) schemaSel(depth int) string {
	parts := []string{}
	for _, f := range g.pick([]string{"description", "types", "queryType", "mutationType", "subscriptionType", "directives"}, 1) {
		switch f {
		case "description", "__typename":
			parts = append(parts, g.alias(f))
		case "directives":
			ds := []string{}
			for _, d := range g.pick([]string{"name", "description", "locations", "args", "isRepeatable"}, 1) {
				if d == "args" {
					ds = append(ds, g.alias(d)+" { "+g.inputSel(depth-1)+" }")
				} else {
					ds = append(ds, g.alias(d))
				}
			}
			parts = append(parts, g.alias(f)+g.dir()+" { "+g.wrap("__Directive", strings.Join(ds, " "))+" }")
		default:
			parts = append(parts, g.alias(f)+g.dir()+" { "+g.typeSel(depth-1)+" }")
		}
	}
	return g.wrap("__Schema", strings.Join(parts, " "))
}

func (g *iGen) query() string {
	g.vars = map[string]interface{}{}
	g.defs, g.frags, g.nfrag, g.budget = nil, nil, 0, 40
	roots := []string{}
	n := 1 + g.r.Intn(2)
	for i := 0; i < n; i++ {
		switch g.r.Intn(5) {
		case 0:
			roots = append(roots, g.alias("__schema")+" { "+g.schemaSel(2+g.r.Intn(2))+" }")
		case 1:
			roots = append(roots, g.alias("__typename"))
		default:
			name := g.names[g.r.Intn(len(g.names))]
			if g.pct(12) {
				name = []string{"Nope", "__Type", "", "query"}[g.r.Intn(4)]
			}
			arg := fmt.Sprintf("%q", name)
			if g.pct(35) {
				v := fmt.Sprintf("n%d", len(g.defs))
				g.defs = append(g.defs, "$"+v+": String!")
				g.vars[v] = name
				arg = "$" + v
			}
			roots = append(roots, g.argAlias("__type", "(name: "+arg+")")+g.dir()+" { "+g.typeSel(2+g.r.Intn(3))+" }")
		}
	}
	head := "query Q"
	if len(g.defs) > 0 {
		head += "(" + strings.Join(g.defs, ", ") + ")"
	}
	return head + " { " + strings.Join(roots, " ") + " }\n" + strings.Join(g.frags, "\n")
}

// ischema prints what Gw/Introspect.v needs of the merged schema: its own types (the library
// wrapper the gateway uses does not list the introspection types themselves) sorted by name
func (c *CoqFile) ischema(s *ast.Schema) string {
	names := []string{}
	for n := range s.Types {
		if !strings.HasPrefix(n, "__") {
			names = append(names, n)
		}
	}
	sort.Strings(names)
	defs := []string{}
	for _, n := range names {
		defs = append(defs, c.Definition(s.Types[n]))
	}
	dnames := []string{}
	rep := []string{}
	for n, d := range s.Directives {
		dnames = append(dnames, n)
		if d.IsRepeatable {
			rep = append(rep, n)
		}
	}
	sort.Strings(dnames)
	sort.Strings(rep)
	dirs := []string{}
	for _, n := range dnames {
		dirs = append(dirs, c.DirDef(s.Directives[n]))
	}
	rootName := func(d *ast.Definition) string {
		if d == nil {
			return ""
		}
		return d.Name
	}
	poss := []string{}
	pk := []string{}
	for k := range s.PossibleTypes {
		pk = append(pk, k)
	}
	sort.Strings(pk)
	for _, k := range pk {
		ns := []string{}
		if def := s.Types[k]; def != nil {
			for _, d := range s.GetPossibleTypes(def) {
				ns = append(ns, d.Name)
			}
		}
		poss = append(poss, "("+c.S(k)+", "+c.Strs(ns)+")")
	}
	sch := c.Intern("sch", "schema", "{| s_types := ["+strings.Join(defs, "; ")+"]; s_dirs := ["+strings.Join(dirs, "; ")+"] |}")
	return c.Intern("isch", "ischema", fmt.Sprintf("{| is_schema := %s; is_desc := %s; is_query := %s; is_mutation := %s; is_subscription := %s; is_repeatable := %s; is_possible := [%s] |}",
		sch, c.S(s.Description), c.S(rootName(s.Query)), c.S(rootName(s.Mutation)), c.S(rootName(s.Subscription)), c.Strs(rep), strings.Join(poss, "; ")))
}

func runC14(cfg *runCfg) error {
	n := cfg.N
	if n == 0 {
		n = 60
		if cfg.Tier == "thorough" {
			n = 1200
		}
	}
	universeHook = introUniverse
	defer func() { universeHook = nil }()
	r := rand.New(rand.NewSource(cfg.Seed))
	sh := NewSharder(cfg.Out, "cases_C14", c14Header, 150_000)
	doc := &CasesDoc{Property: "C14", Seed: cfg.Seed, Tier: cfg.Tier, Dist: map[string]int{}}
	var replay *c14Case
	if cfg.Replay != "" {
		var rp struct {
			Case struct {
				Input c14Case `json:"input"`
			} `json:"case"`
		}
		if err := readJSON(cfg.Replay, &rp); err != nil {
			return err
		}
		replay = &rp.Case.Input
		n = 1
	}
	id := 0
	for i := 0; i < n; i++ {
		var svcs []*mSvc
		if replay != nil {
			svcs = replay.Services
		} else {
			svcs = genMergeCase(r, 0).Services
		}
		srcs := []*graphql.RemoteSchema{}
		bad := false
		for _, s := range svcs {
			sch, lerr := graphql.LoadSchema(s.SDL)
			if lerr != nil {
				bad = true
				break
			}
			srcs = append(srcs, &graphql.RemoteSchema{Schema: sch, URL: s.Name})
		}
		if bad {
			doc.Dist["generator:schema-does-not-load"]++
			continue
		}
		capP := &capPlanner{inner: &gateway.MinQueriesPlanner{}}
		gw, nerr := gateway.New(srcs, gateway.WithPlanner(capP), gateway.WithLogger(quietLogger{}))
		if nerr != nil {
			doc.Dist["generator:merge-error"]++
			if os.Getenv("C14_DIFF") != "" {
				fmt.Fprintln(os.Stderr, "merge error:", nerr)
			}
			continue
		}
		_, _ = gw.GetPlans(&gateway.RequestContext{Context: context.Background(), Query: "{ __typename }"})
		merged := capP.Schema
		names := []string{}
		for nme := range merged.Types {
			if !strings.HasPrefix(nme, "__") {
				names = append(names, nme)
			}
		}
		sort.Strings(names)
		g := &iGen{r: r, names: names}
		nq := 7
		if replay != nil {
			nq = 1
		}
		for qi := 0; qi < nq; qi++ {
			cs := &c14Case{Services: svcs}
			switch {
			case replay != nil:
				cs.Query, cs.Vars = replay.Query, replay.Vars
			case qi == 0 && i%4 == 0:
				cs.Query, cs.Vars = fullIntrospection, map[string]interface{}{}
				cs.Tags = []string{"canonical"}
			case qi == 0 && i%4 == 2:
				cs.Query, cs.Vars = variableIntrospection, map[string]interface{}{"all": i%8 == 2}
				cs.Tags = []string{"canonical-with-variables"}
			case qi == 1 || (qi == 2 && i%2 == 0):
				// (asked two or three times per schema: the order in which the resolvers visit the selections
				// of one object is Go's map order)
				cs.Query, cs.Vars = siblingsIntrospection, map[string]interface{}{"yes": (i+qi)%2 == 0}
				cs.Tags = []string{"siblings-with-and-without-includeDeprecated"}
			default:
				cs.Query = g.query()
				cs.Vars = g.vars
			}
			parsed, verr := gqlparser.LoadQuery(merged, cs.Query)
			if verr != nil {
				doc.Dist["generator:invalid-query"]++
				if os.Getenv("C14_DIFF") != "" {
					fmt.Fprintln(os.Stderr, "invalid:", verr)
				}
				continue
			}
			op := parsed.Operations[0]
			// run it
			type res struct {
				d   map[string]interface{}
				err error
			}
			cfg.Crumb("introspection", cs)
			ch := make(chan res, 1)
			go func() {
				defer func() {
					if p := recover(); p != nil {
						ch <- res{err: fmt.Errorf("PANIC %v", p)}
					}
				}()
				rc := &gateway.RequestContext{Context: context.Background(), Query: cs.Query, OperationName: op.Name, Variables: cs.Vars}
				plans, perr := gw.GetPlans(rc)
				if perr != nil {
					ch <- res{err: fmt.Errorf("PLAN %v", perr)}
					return
				}
				d, eerr := gw.Execute(rc, plans)
				ch <- res{d, eerr}
			}()
			var out res
			select {
			case out = <-ch:
			case <-time.After(10 * time.Second):
				out = res{err: fmt.Errorf("HANG")}
			}
			// the answer as a client receives it: through encoding/json (the resolvers return *string etc.)
			if out.d != nil {
				if b, merr := json.Marshal(out.d); merr == nil {
					var back map[string]interface{}
					if json.Unmarshal(b, &back) == nil {
						out.d = back
					}
				}
			}
			cls := 0
			note := ""
			if out.err != nil {
				cls, note = 2, out.err.Error()
				switch {
				case strings.HasPrefix(note, "PANIC"):
					cls = 3
				case strings.HasPrefix(note, "PLAN"):
					cls = 1
				case strings.HasPrefix(note, "HANG"):
					cls = 4
				}
			}
			c := sh.File()
			isch := c.ischema(merged)
			fuel := 12 + 2*len(parsed.Fragments)
			varnames := []string{}
			for _, vd := range op.VariableDefinitions {
				varnames = append(varnames, vd.Variable)
			}
			c.Printf("Definition frags%d : list fragdef := %s.\nDefinition vars%d : list (string * json) := %s.\nDefinition sels%d : list sel := %s.\nDefinition data%d : json := %s.\n",
				id, c.Frags(parsed.Fragments), id, c.vars(cs.Vars), id, c.Sels(op.SelectionSet), id, c.JSON(out.d))
			c.Printf("Eval vm_compute in (\"%d\"%%string, true, c14_holds %s frags%d vars%d %d sels%d %d data%d, c14_guards frags%d sels%d).\n", id,
				isch, id, id, fuel, id, cls, id, id, id)
			if os.Getenv("C14_DIFF") != "" {
				c.Printf("Eval vm_compute in (\"%d\"%%string, c14_diff %s frags%d vars%d %d sels%d data%d).\n", id, isch, id, id, fuel, id, id)
			}
			key, _ := json.Marshal(struct {
				Q string
				V map[string]interface{}
				S []*mSvc
			}{cs.Query, cs.Vars, svcs})
			doc.Dist[fmt.Sprintf("class:%d", cls)]++
			for _, f := range []string{"__schema", "__type", "__typename", "includeDeprecated", "@skip", "@include", "fragment ", "... on", "$n", "specifiedByURL", "isRepeatable", "possibleTypes", "ofType"} {
				if strings.Contains(cs.Query, f) {
					doc.Dist["feature:"+strings.TrimSpace(f)]++
				}
			}
			obs := map[string]interface{}{"class": cls, "note": note, "data": out.d}
			doc.Cases = append(doc.Cases, CaseInfo{ID: id, Kind: "introspection", Input: cs, Observed: obs, Tags: cs.Tags,
				Nontrivial: len(cs.Query) > 60, Key: string(key)})
			id++
		}
	}
	if err := sh.Flush(); err != nil {
		return err
	}
	doc.Shards = sh.Files
	return doc.Write(cfg.Out)
}

// Command gwharness runs nautilus/gateway (built from the working tree with -tags verif) on
// generated inputs and writes, per property, the inputs and the observed behaviour as Gallina
// terms (cases_*.v) for the Coq model to be evaluated on, plus a JSON side file describing
// the cases (for replays and evidence).
package main

import (
	"encoding/json"
	"flag"
	"fmt"
	"os"
	"path/filepath"
)

type runCfg struct {
	Seed   int64
	Tier   string
	Out    string
	Replay string
	N      int
}

var props = map[string]func(cfg *runCfg) error{}

// Crumb records the case that is about to run.  A panic in one of the gateway's own goroutines
// takes the whole process down and cannot be recovered here: the check then finds the crumb and
// reports that case as the failing input.  A run that ends normally removes it.
func (cfg *runCfg) Crumb(kind string, input interface{}) {
	b, err := json.Marshal(map[string]interface{}{"kind": kind, "input": input})
	if err != nil {
		return
	}
	_ = os.WriteFile(filepath.Join(cfg.Out, "current_case.json"), b, 0o644)
}

func main() {
	if len(os.Args) < 2 {
		fmt.Fprintln(os.Stderr, "usage: gwharness <property> [-seed n] [-tier quick|thorough] [-out dir] [-replay file]")
		os.Exit(2)
	}
	prop := os.Args[1]
	fs := flag.NewFlagSet(prop, flag.ExitOnError)
	cfg := &runCfg{}
	fs.Int64Var(&cfg.Seed, "seed", 1, "PRNG seed")
	fs.StringVar(&cfg.Tier, "tier", "quick", "quick|thorough")
	fs.StringVar(&cfg.Out, "out", ".", "output directory")
	fs.StringVar(&cfg.Replay, "replay", "", "replay file")
	fs.IntVar(&cfg.N, "n", 0, "number of cases (0 = tier default)")
	_ = fs.Parse(os.Args[2:])
	f, ok := props[prop]
	if !ok {
		fmt.Fprintln(os.Stderr, "unknown property", prop)
		os.Exit(2)
	}
	if err := os.MkdirAll(cfg.Out, 0o755); err != nil {
		fmt.Fprintln(os.Stderr, err)
		os.Exit(2)
	}
	if err := f(cfg); err != nil {
		fmt.Fprintln(os.Stderr, "harness error:", err)
		os.Exit(3)
	}
	_ = os.Remove(filepath.Join(cfg.Out, "current_case.json"))
}

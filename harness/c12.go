package main

import (
	"crypto/sha256"
	"encoding/hex"
	"encoding/json"
	"errors"
	"fmt"
	"math/rand"
	"strings"
	"sync"
	"sync/atomic"
	"time"

	"github.com/nautilus/gateway"
	"github.com/vektah/gqlparser/v2/ast"
)

func init() { props["C12"] = runC12 }

const c12Header = `From Coq Require Import String List ZArith.
Import ListNotations.
From GW Require Import Base.Res Base.Json Gw.Cache Gw.CacheCheck.
Local Open Scope string_scope.
Local Open Scope bool_scope.
`

type tagPlanner struct{ calls int64 }

func (p *tagPlanner) Plan(ctx *gateway.PlanningContext) (gateway.QueryPlanList, error) {
	atomic.AddInt64(&p.calls, 1)
	if strings.Contains(ctx.Query, "bad") {
		return nil, errors.New("planner rejects " + ctx.Query)
	}
	return gateway.QueryPlanList{&gateway.QueryPlan{Operation: &ast.OperationDefinition{Name: ctx.Query}}}, nil
}

type c12Ev struct {
	Idle  bool   `json:"idle,omitempty"`
	Query string `json:"query"`
	Hash  string `json:"hash"`
}

type c12Ans struct {
	Kind string `json:"kind"` // plans | notfound | planerror | other
	Tag  string `json:"tag,omitempty"`
	Key  string `json:"key"`
	Note string `json:"note,omitempty"`
}

func shaHex(s string) string {
	h := sha256.Sum256([]byte(s))
	return hex.EncodeToString(h[:])
}

func c12Retrieve(c *gateway.AutomaticQueryPlanCache, p gateway.QueryPlanner, q, h string) c12Ans {
	key := h
	plans, err := c.Retrieve(&gateway.PlanningContext{Query: q}, &key, p)
	switch {
	case err == nil && len(plans) == 1 && plans[0] != nil && plans[0].Operation != nil:
		return c12Ans{Kind: "plans", Tag: plans[0].Operation.Name, Key: key}
	case err == nil:
		return c12Ans{Kind: "other", Key: key, Note: fmt.Sprintf("no error and %d plans", len(plans))}
	case err.Error() == gateway.MessageMissingCachedQuery:
		return c12Ans{Kind: "notfound", Key: key}
	case strings.HasPrefix(err.Error(), "planner rejects"):
		return c12Ans{Kind: "planerror", Key: key}
	}
	return c12Ans{Kind: "other", Key: key, Note: err.Error()}
}

const c12TTL = 120 * time.Millisecond

func c12Run(h []c12Ev) []c12Ans {
	c := gateway.NewAutomaticQueryPlanCache().WithCacheTTL(c12TTL)
	p := &tagPlanner{}
	out := []c12Ans{}
	for _, e := range h {
		if e.Idle {
			time.Sleep(c12TTL*3 + 30*time.Millisecond)
			continue
		}
		out = append(out, c12Retrieve(c, p, e.Query, e.Hash))
	}
	return out
}

// c12Burst: concurrent first lookups of one key, then the entry is used more often than once per
// TTL for several TTLs; it must stay cached whatever sweepers the burst started
func c12Burst(r *rand.Rand) (bool, string) {
	c := gateway.NewAutomaticQueryPlanCache().WithCacheTTL(c12TTL)
	p := &tagPlanner{}
	n := 2 + r.Intn(7)
	var wg sync.WaitGroup
	bad := ""
	var mu sync.Mutex
	for i := 0; i < n; i++ {
		wg.Add(1)
		go func(i int) {
			defer wg.Done()
			q, h := "{ burst }", "hb"
			if i%3 == 2 {
				q = "" // hash-only racing with the first registration
			}
			a := c12Retrieve(c, p, q, h)
			if a.Kind == "plans" && a.Tag != "{ burst }" || a.Kind == "other" || a.Kind == "planerror" || (a.Kind == "notfound" && q != "") {
				mu.Lock()
				bad = fmt.Sprintf("concurrent lookup %d got %+v", i, a)
				mu.Unlock()
			}
		}(i)
	}
	wg.Wait()
	if bad != "" {
		return false, bad
	}
	c12Retrieve(c, p, "{ burst }", "hb")
	for t := 0; t < 9; t++ {
		time.Sleep(c12TTL * 36 / 100)
		a := c12Retrieve(c, p, "", "hb")
		if a.Kind != "plans" || a.Tag != "{ burst }" {
			return false, fmt.Sprintf("entry used %v ago (ttl %v) answered %+v", c12TTL*36/100, c12TTL, a)
		}
	}
	return true, ""
}

func runC12(cfg *runCfg) error {
	n := cfg.N
	if n == 0 {
		n = 240
		if cfg.Tier == "thorough" {
			n = 3000
		}
	}
	r := rand.New(rand.NewSource(cfg.Seed))
	sh := NewSharder(cfg.Out, "cases_C12", c12Header, 200_000)
	doc := &CasesDoc{Property: "C12", Seed: cfg.Seed, Tier: cfg.Tier, Dist: map[string]int{}}
	queries := []string{"{ a }", "{ b }", "{ c d }", "{ bad }"}
	var hists [][]c12Ev
	if cfg.Replay != "" {
		var kind struct {
			Case struct {
				Kind  string          `json:"kind"`
				Input json.RawMessage `json:"input"`
			} `json:"case"`
		}
		if err := readJSON(cfg.Replay, &kind); err == nil && kind.Case.Kind == "http-batch-one-cache" {
			bc := &c11BatchCase{}
			if err := json.Unmarshal(kind.Case.Input, bc); err != nil {
				return err
			}
			bid := 0
			if err := c11BatchCases(cfg, r, sh, doc, &bid, 1, bc); err != nil {
				return err
			}
			if err := sh.Flush(); err != nil {
				return err
			}
			doc.Shards = sh.Files
			return doc.Write(cfg.Out)
		}
		var rp struct {
			Case struct {
				Input []c12Ev `json:"input"`
			} `json:"case"`
		}
		if err := readJSON(cfg.Replay, &rp); err != nil {
			return err
		}
		hists = append(hists, rp.Case.Input)
	} else {
		// the history that stores a planner error under a hash, and a few fixed ones first
		hists = append(hists,
			[]c12Ev{{Query: "{ bad }", Hash: "hx"}, {Query: "{ bad }", Hash: "hx"}, {Query: "", Hash: "hx"}},
			[]c12Ev{{Query: "", Hash: "h0"}, {Query: "{ a }", Hash: "h0"}, {Query: "", Hash: "h0"}, {Idle: true}, {Query: "", Hash: "h0"}},
			[]c12Ev{{Query: "{ a }", Hash: ""}, {Query: "", Hash: shaHex("{ a }")}, {Query: "{ a }", Hash: shaHex("{ a }")}})
		for i := 0; i < n; i++ {
			k := 2 + r.Intn(8)
			h := []c12Ev{}
			idles := 0
			for j := 0; j < k; j++ {
				q := queries[r.Intn(len(queries))]
				hq := "h:" + q // a hash is always paired with the same text
				switch p := r.Intn(100); {
				case p < 25:
					h = append(h, c12Ev{Query: q, Hash: ""})
				case p < 50:
					h = append(h, c12Ev{Query: q, Hash: hq})
				case p < 75:
					h = append(h, c12Ev{Query: "", Hash: hq})
				case p < 83:
					h = append(h, c12Ev{Query: "", Hash: shaHex(q)})
				case p < 88:
					h = append(h, c12Ev{Query: "", Hash: "unknown"})
				case p < 92:
					h = append(h, c12Ev{Query: "", Hash: ""})
				default:
					if idles < 1 && i%6 == 0 {
						h = append(h, c12Ev{Idle: true})
						idles++
					}
				}
			}
			hists = append(hists, h)
		}
	}
	// histories run concurrently (each on its own cache): the idle periods dominate the time
	results := make([][]c12Ans, len(hists))
	var wg sync.WaitGroup
	sem := make(chan struct{}, 64)
	for i := range hists {
		wg.Add(1)
		sem <- struct{}{}
		go func(i int) {
			defer wg.Done()
			results[i] = c12Run(hists[i])
			<-sem
		}(i)
	}
	// concurrent bursts
	nb := 48
	if n/5 > nb {
		nb = n / 5 // the search pass after a broken obligation asks for more cases: more bursts
	}
	if cfg.Tier == "thorough" && nb < 400 {
		nb = 400
	}
	if cfg.Replay != "" {
		nb = 0
	}
	burstBad := make([]string, nb)
	for i := 0; i < nb; i++ {
		wg.Add(1)
		rr := rand.New(rand.NewSource(cfg.Seed*1000 + int64(i)))
		go func(i int) {
			defer wg.Done()
			if ok, note := c12Burst(rr); !ok {
				burstBad[i] = note
			}
		}(i)
	}
	wg.Wait()
	table := []string{}
	for id, h := range hists {
		c := sh.File()
		if len(table) == 0 {
			for _, q := range queries {
				table = append(table, q)
			}
		}
		tb := []string{}
		for _, q := range queries {
			tb = append(tb, "("+c.S(q)+", "+c.S(shaHex(q))+")")
		}
		evs := []string{}
		for _, e := range h {
			if e.Idle {
				evs = append(evs, "HIdle")
			} else {
				evs = append(evs, "HReq "+c.S(e.Query)+" "+c.S(e.Hash))
			}
		}
		obs := []string{}
		for _, a := range results[id] {
			t := "OPlanError"
			switch a.Kind {
			case "plans":
				t = "OPlans " + c.S(a.Tag)
			case "notfound":
				t = "ONotFound"
			case "other":
				t = "OPlans " + c.S("<other: "+a.Note+">")
			}
			obs = append(obs, "("+t+", "+c.S(a.Key)+")")
			doc.Dist["answer:"+a.Kind]++
		}
		args := fmt.Sprintf("[%s] [%s] [%s]", strings.Join(tb, "; "), strings.Join(evs, "; "), strings.Join(obs, "; "))
		c.Printf("Eval vm_compute in (\"%d\"%%string, model_agrees %s, property_holds %s).\n", id, args, args)
		key, _ := json.Marshal(h)
		idle := false
		for _, e := range h {
			idle = idle || e.Idle
		}
		if idle {
			doc.Dist["history:with-idle"]++
		}
		doc.Cases = append(doc.Cases, CaseInfo{ID: id, Kind: "history", Input: h, Observed: results[id], Nontrivial: len(h) >= 3, Key: string(key)})
	}
	// the bursts are one more case each: the oracle is evaluated here (there is nothing to model
	// beyond "every answer is the right plan and the entry stays cached")
	base := len(hists)
	for i, note := range burstBad {
		c := sh.File()
		ok := note == ""
		c.Printf("Eval vm_compute in (\"%d\"%%string, true, %s).\n", base+i, coqBool(ok))
		doc.Cases = append(doc.Cases, CaseInfo{ID: base + i, Kind: "concurrent-burst", Input: map[string]interface{}{"burst": i, "ttl_ms": c12TTL.Milliseconds()},
			Observed: map[string]interface{}{"ok": ok, "note": note}, Nontrivial: true, Key: fmt.Sprintf("burst-%d-%d", cfg.Seed, i)})
		doc.Dist["burst"]++
	}
	if cfg.Replay == "" {
		// the handler's side of the cache: a batch in which some operations carry the hash of their own
		// text and some do not, every entry against the answer the same operation gets alone from a
		// fresh gateway (what a request is keyed by is its own hash, or the sha256 of its own text)
		nb := 20
		if cfg.Tier == "thorough" {
			nb = 200
		}
		bid := 1000000
		if err := c11BatchCases(cfg, rand.New(rand.NewSource(cfg.Seed+211)), sh, doc, &bid, nb, nil); err != nil {
			return err
		}
	}
	if err := sh.Flush(); err != nil {
		return err
	}
	doc.Shards = sh.Files
	return doc.Write(cfg.Out)
}

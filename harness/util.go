package main

import (
	"encoding/json"
	"errors"
	"os"
	"sort"
	"strings"

	"github.com/nautilus/gateway"
	"github.com/nautilus/graphql"
	"github.com/vektah/gqlparser/v2/ast"
	"github.com/vektah/gqlparser/v2/formatter"
)

func sortStrings(s []string) { sort.Strings(s) }

func readJSON(path string, v interface{}) error {
	b, err := os.ReadFile(path)
	if err != nil {
		return err
	}
	return json.Unmarshal(b, v)
}

type quietLogger struct{}

func (quietLogger) Debug(args ...interface{})                               {}
func (quietLogger) Info(args ...interface{})                                {}
func (quietLogger) Warn(args ...interface{})                                {}
func (q quietLogger) WithFields(fields gateway.LoggerFields) gateway.Logger { return q }
func (quietLogger) QueryPlanStep(step *gateway.QueryPlanStep)               {}

// countErrors flattens a graphql.ErrorList (nested lists included) to its number of entries
func countErrors(err error) int {
	if err == nil {
		return 0
	}
	var el graphql.ErrorList
	if errors.As(err, &el) {
		n := 0
		for _, e := range el {
			n += countErrors(e)
		}
		return n
	}
	return 1
}

// selText prints a selection set as GraphQL text
func selText(ss ast.SelectionSet) string {
	var sb strings.Builder
	formatter.NewFormatter(&sb).FormatQueryDocument(&ast.QueryDocument{Operations: ast.OperationList{{Operation: ast.Query, SelectionSet: ss}}})
	return sb.String()
}

// withDefaults is CoerceVariableValues as far as defaults go: a variable the request leaves out takes
// the default its operation declares (an explicit null stays null)
func withDefaults(op *ast.OperationDefinition, vals map[string]interface{}) map[string]interface{} {
	out := map[string]interface{}{}
	for k, v := range vals {
		out[k] = v
	}
	if op == nil {
		return out
	}
	for _, vd := range op.VariableDefinitions {
		if _, given := out[vd.Variable]; !given && vd.DefaultValue != nil {
			if v, err := vd.DefaultValue.Value(nil); err == nil {
				out[vd.Variable] = v
			}
		}
	}
	return out
}

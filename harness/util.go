package main

import (
	"encoding/json"
	"os"
	"sort"

	"github.com/nautilus/gateway"
)

func sortStrings(s []string) { sort.Strings(s) }

func readJSON(path string, v interface{}) error {
	b, err := os.ReadFile(path)
	if err != nil {
		return err
	}
	return json.Unmarshal(b, v)
}

type quietLogger struct{}

func (quietLogger) Debug(args ...interface{})                               {}
func (quietLogger) Info(args ...interface{})                                {}
func (quietLogger) Warn(args ...interface{})                                {}
func (q quietLogger) WithFields(fields gateway.LoggerFields) gateway.Logger { return q }
func (quietLogger) QueryPlanStep(step *gateway.QueryPlanStep)               {}

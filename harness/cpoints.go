package main

// Correspondence cases for the insertion-point functions of execute.go and the scrub middleware
// (model: coq/theories/Gw/Points.v): generated selection trees, response data of matching (and
// sometimes deliberately wrong) shape, static paths, and for every realised point an extract, an
// insert and a scrub.  Run under the properties that rest on stitching (C01, C04, C07, C13).

import (
	"context"
	"encoding/json"
	"fmt"
	"math/rand"
	"sort"
	"strings"

	"github.com/nautilus/gateway"
	"github.com/nautilus/graphql"
	"github.com/vektah/gqlparser/v2/ast"
)

const pointsImports = "Gw.Points Gw.PointsCheck"

type ptField struct {
	Alias   string     `json:"alias"`
	Name    string     `json:"name"`
	List    bool       `json:"list"`
	NonNull bool       `json:"nonnull"`
	Sub     []*ptField `json:"sub,omitempty"`
	Inline  bool       `json:"inline,omitempty"` // this node is an inline fragment wrapping Sub
}

type ptCase struct {
	Sels    []*ptField             `json:"selection"`
	Data    map[string]interface{} `json:"data"`
	Targets []string               `json:"targets"`
	Start   []string               `json:"start"`
	Shaped  bool                   `json:"well_shaped"`
	Value   map[string]interface{} `json:"value"`
	Points  []string               `json:"raw_points,omitempty"`
}

var ptNames = []string{"a", "b", "c", "user", "items", "id", "n", "owner"}

func ptKey(f *ptField) string {
	if f.Alias != "" {
		return f.Alias
	}
	return f.Name
}

func genPtSels(r *rand.Rand, depth int) []*ptField {
	n := 1 + r.Intn(3)
	var out []*ptField
	for i := 0; i < n; i++ {
		f := &ptField{Name: ptNames[r.Intn(len(ptNames))]}
		switch r.Intn(3) {
		case 0:
			f.Alias = f.Name // as gqlparser sets it
		case 1:
			f.Alias = ptNames[r.Intn(len(ptNames))] + "_" + fmt.Sprint(r.Intn(3))
		}
		if depth > 0 && r.Intn(4) > 0 && ptKey(f) != "id" {
			f.List = r.Intn(5) < 3
			f.Sub = genPtSels(r, depth-1)
		}
		f.NonNull = r.Intn(4) == 0
		if depth > 0 && r.Intn(6) == 0 {
			out = append(out, &ptField{Inline: true, Sub: []*ptField{f}})
		} else {
			out = append(out, f)
		}
	}
	return out
}

// genPtChain: one composite field per level (mostly lists), depth levels deep, with a scalar beside it
func genPtChain(r *rand.Rand, depth int) []*ptField {
	leaf := &ptField{Name: "n", Alias: "n"}
	if depth == 0 {
		return []*ptField{leaf}
	}
	f := &ptField{Name: ptNames[r.Intn(5)], List: r.Intn(4) > 0}
	if r.Intn(2) == 0 {
		f.Alias = f.Name
	}
	f.Sub = genPtChain(r, depth-1)
	return []*ptField{f, leaf}
}

func ptAST(fs []*ptField) ast.SelectionSet {
	out := ast.SelectionSet{}
	for _, f := range fs {
		if f.Inline {
			out = append(out, &ast.InlineFragment{TypeCondition: "T", SelectionSet: ptAST(f.Sub)})
			continue
		}
		t := ast.NamedType("T", nil)
		if f.List {
			t = ast.ListType(ast.NamedType("T", nil), nil)
		}
		t.NonNull = f.NonNull
		out = append(out, &ast.Field{Alias: f.Alias, Name: f.Name, Definition: &ast.FieldDefinition{Name: f.Name, Type: t}, SelectionSet: ptAST(f.Sub)})
	}
	return out
}

// the flattened selection as graphql.ApplyFragments (a library function, an input of the model) gives it
func (c *CoqFile) fsels(ss ast.SelectionSet) string {
	flat, err := graphql.ApplyFragments(ss, nil)
	if err != nil {
		panic(err)
	}
	parts := []string{}
	for _, s := range flat {
		f := s.(*ast.Field)
		key := f.Name
		if f.Alias != "" {
			key = f.Alias
		}
		parts = append(parts, fmt.Sprintf("FS %s %s %s %s", c.S(key), coqBool(f.Definition.Type.Elem != nil), coqBool(f.Definition.Type.NonNull), c.fsels(f.SelectionSet)))
	}
	sort.Strings(parts)
	return c.Intern("fs", "list fsel", "["+strings.Join(parts, "; ")+"]")
}

var ptIDs = []string{"1", "2", "u:1", "a#b", "x y", "é", "", "7#7:7", "Type:9"}

func genPtData(r *rand.Rand, flat ast.SelectionSet, shaped *bool, level ...int) map[string]interface{} {
	lvl := 0
	if len(level) > 0 {
		lvl = level[0]
	}
	out := map[string]interface{}{}
	if r.Intn(10) > 0 {
		out["id"] = ptIDs[r.Intn(len(ptIDs))]
	} else if r.Intn(2) == 0 {
		out["id"] = float64(r.Intn(50))
	}
	for _, s := range flat {
		f := s.(*ast.Field)
		key := f.Name
		if f.Alias != "" {
			key = f.Alias
		}
		if key == "id" {
			continue
		}
		sub, _ := graphql.ApplyFragments(f.SelectionSet, nil)
		one := func() interface{} {
			if len(sub) == 0 {
				return "s" + fmt.Sprint(r.Intn(9))
			}
			return genPtData(r, sub, shaped, lvl+1)
		}
		switch x := r.Intn(40); {
		case x == 0:
			// missing
		case x == 1:
			out[key] = nil
		case x == 2 && len(sub) > 0:
			// deliberately the wrong shape
			*shaped = false
			switch r.Intn(3) {
			case 0:
				out[key] = "scalar"
			case 1:
				if f.Definition.Type.Elem != nil {
					out[key] = one()
				} else {
					out[key] = []interface{}{one(), one()}
				}
			default:
				out[key] = []interface{}{"x", nil}
			}
		case f.Definition.Type.Elem != nil:
			l := []interface{}{}
			maxn := 5
			if lvl >= 3 {
				maxn = 3
			}
			for i, n := 0, r.Intn(maxn); i < n; i++ {
				if r.Intn(7) == 0 {
					l = append(l, nil)
				} else {
					l = append(l, one())
				}
			}
			out[key] = l
		default:
			out[key] = one()
		}
	}
	return out
}

func genPtTargets(r *rand.Rand, flat ast.SelectionSet) []string {
	var out []string
	cur := flat
	for len(cur) > 0 {
		var cands []*ast.Field
		for _, s := range cur {
			f := s.(*ast.Field)
			if len(f.SelectionSet) > 0 {
				cands = append(cands, f)
			}
		}
		if len(cands) == 0 || (len(out) > 0 && r.Intn(4) == 0) {
			break
		}
		f := cands[r.Intn(len(cands))]
		key := f.Name
		if f.Alias != "" {
			key = f.Alias
		}
		out = append(out, key)
		cur, _ = graphql.ApplyFragments(f.SelectionSet, nil)
	}
	if r.Intn(12) == 0 {
		out = append(out, "nosuch")
	}
	return out
}

func callCls(f func() error) (cls int, note string) {
	defer func() {
		if rec := recover(); rec != nil {
			cls, note = 2, fmt.Sprint(rec)
		}
	}()
	if err := f(); err != nil {
		return 1, err.Error()
	}
	return 0, ""
}

func (c *CoqFile) paths(ps [][]string) string {
	parts := make([]string, len(ps))
	for i, p := range ps {
		parts[i] = c.Strs(p)
	}
	return "[" + strings.Join(parts, "; ") + "]"
}

var rawPoints = []string{"a", "a:0", "a:12", "a#id", "a:3#x", "a:3#x#y", "a:3#u:1", "#x", "a:", "a:x", "a:-1", "a:1:2", ":1", "a#", "a:01",
	"a:9223372036854775808", "a:+4", "", "a#b:1", "items:2#Type:9", "a: 1", "a:1 "}

// pointsCases appends n generated cases to the shards; ids continue from *id.
func pointsCases(r *rand.Rand, sh *Sharder, doc *CasesDoc, id *int, n int, replay *ptCase) {
	ectx := func(plan *gateway.QueryPlan) *gateway.ExecutionContext {
		return gateway.VerifExecutionContext(context.Background(), quietLogger{}, plan, nil)
	}
	// a fixed corpus first: the boundary shapes of the value at the last (and at an inner) target
	corpus := []*ptCase{}
	if replay == nil {
		leaf := &ptField{Name: "n", Alias: "n"}
		obj := func(id string) map[string]interface{} { return map[string]interface{}{"id": id, "n": "s"} }
		shapes := []interface{}{
			[]interface{}{}, []interface{}{obj("1")}, []interface{}{nil}, []interface{}{"x"}, []interface{}{obj("1"), obj("2")},
			obj("1"), map[string]interface{}{"n": "no id"}, map[string]interface{}{}, nil, "scalar", float64(3), true,
			[]interface{}{map[string]interface{}{"n": "no id"}}, []interface{}{obj("a#b"), nil, obj("")},
		}
		for _, isList := range []bool{false, true} {
			for _, nonNull := range []bool{false, true} {
				for _, v := range shapes {
					// the value directly under the last target
					corpus = append(corpus, &ptCase{Shaped: false,
						Sels:    []*ptField{{Name: "user", Alias: "user", List: isList, NonNull: nonNull, Sub: []*ptField{leaf}}, leaf},
						Data:    map[string]interface{}{"id": "r", "user": v},
						Targets: []string{"user"}, Value: map[string]interface{}{"n": "new"}})
					// and one level up, under a well-formed object
					corpus = append(corpus, &ptCase{Shaped: false,
						Sels: []*ptField{{Name: "a", Alias: "a", Sub: []*ptField{{Name: "user", Alias: "user", List: isList, NonNull: nonNull, Sub: []*ptField{leaf}}, leaf}}},
						Data: map[string]interface{}{"id": "r", "a": map[string]interface{}{"id": "a1", "user": v}}, Targets: []string{"a", "user"},
						Value: map[string]interface{}{"n": "new"}})
				}
			}
		}
	}
	for i := 0; i < n+len(corpus); i++ {
		pc := replay
		if pc == nil && i < len(corpus) {
			pc = corpus[i]
		}
		if pc == nil {
			pc = &ptCase{Shaped: true}
			if i%5 == 4 {
				// a deep chain: paths of four to eight points, lists on the way
				pc.Sels = genPtChain(r, 4+r.Intn(5))
			} else {
				pc.Sels = genPtSels(r, 1+r.Intn(3))
			}
			flat0, _ := graphql.ApplyFragments(ptAST(pc.Sels), nil)
			pc.Data = genPtData(r, flat0, &pc.Shaped)
			pc.Targets = genPtTargets(r, flat0)
			pc.Value = map[string]interface{}{"n": "new", "k" + fmt.Sprint(r.Intn(3)): map[string]interface{}{"x": float64(r.Intn(5))}}
			if r.Intn(3) == 0 {
				// a key the target may already hold: deep merge
				pc.Value["a"] = map[string]interface{}{"z": "merged"}
				pc.Value["items"] = []interface{}{map[string]interface{}{"z": "m0"}, map[string]interface{}{"z": "m1"}}
			}
			if i%10 == 0 {
				pc.Points = []string{rawPoints[r.Intn(len(rawPoints))], rawPoints[r.Intn(len(rawPoints))], ptNames[r.Intn(len(ptNames))] + ":" + fmt.Sprint(r.Intn(1000)) + "#" + ptIDs[r.Intn(len(ptIDs))]}
			}
		}
		c := sh.File()
		ss := ptAST(pc.Sels)
		fs := c.fsels(ss)
		data := c.Intern("pd", "list (string * json)", c.JSONMap(pc.Data))
		var checks, oracles []string
		obs := map[string]interface{}{}

		// the codec on raw strings
		for _, p := range pc.Points {
			var field, pid string
			var index int
			cls, _ := callCls(func() error {
				var err error
				field, index, pid, err = gateway.VerifGetPointData(p)
				return err
			})
			isl := false
			cls2, _ := callCls(func() error { isl = gateway.VerifIsListElement(p); return nil })
			if cls2 != 0 {
				cls = 2
			}
			checks = append(checks, fmt.Sprintf("point_agrees %s %d %s (%d)%%Z %s %s", c.S(p), cls, c.S(field), index, c.S(pid), coqBool(isl)))
		}

		// find
		var points [][]string
		fcls, fnote := callCls(func() error {
			var err error
			points, err = gateway.VerifFindInsertionPoints(ectx(nil), pc.Targets, ss, deepCopy(pc.Data).(map[string]interface{}), [][]string{append([]string{}, pc.Start...)}, nil)
			return err
		})
		obs["find"] = map[string]interface{}{"class": fcls, "note": fnote, "points": points}
		checks = append(checks, fmt.Sprintf("find_agrees %s %s %s %s %d %s", c.Strs(pc.Targets), fs, data, c.Strs(pc.Start), fcls, c.paths(points)))
		if len(pc.Start) == 0 {
			oracles = append(oracles, fmt.Sprintf("find_holds %s %s %s %d %s", coqBool(pc.Shaped), c.Strs(pc.Targets), data, fcls, c.paths(points)))
		}
		// C07: whatever the payload looks like, the stitching code answers with a value or an error
		noPanic := func(cls int) {
			if doc.Property == "C07" {
				oracles = append(oracles, fmt.Sprintf("negb (Nat.eqb %d 2)", cls))
			}
		}
		noPanic(fcls)
		doc.Dist[fmt.Sprintf("points:find-class:%d", fcls)]++
		doc.Dist["points:found:"+bucket(len(points))]++

		// extract and insert at (up to three of) the found points, and at a made-up one
		if replay == nil && i >= len(corpus) && len(points) > 0 && r.Intn(2) == 0 {
			// a value shaped like what the first point already holds: deep merge of objects and of equally long lists
			if cur, err := gateway.VerifExtractValue(ectx(nil), deepCopy(pc.Data).(map[string]interface{}), points[0]); err == nil {
				if obj, ok := cur.(map[string]interface{}); ok {
					for k, v := range obj {
						switch x := v.(type) {
						case map[string]interface{}:
							pc.Value[k] = map[string]interface{}{"z": "m", "id": "other"}
						case []interface{}:
							n := len(x)
							if r.Intn(4) == 0 {
								n++
							}
							l := make([]interface{}, n)
							for i := range l {
								l[i] = map[string]interface{}{"z": "m" + fmt.Sprint(i)}
							}
							pc.Value[k] = l
						}
					}
				}
			}
		}
		try := [][]string{}
		for k, p := range points {
			if k < 3 {
				try = append(try, p)
			}
		}
		nreal := len(try)
		if len(pc.Targets) > 0 && r.Intn(3) == 0 {
			made := append([]string{}, pc.Targets...)
			made[len(made)-1] = made[len(made)-1] + ":" + fmt.Sprint(r.Intn(4)) + "#zz"
			try = append(try, made)
		}
		if r.Intn(8) == 0 {
			try = append(try, []string{})
		}
		for k, p := range try {
			src := deepCopy(pc.Data).(map[string]interface{})
			var got interface{}
			ecls, _ := callCls(func() error {
				var err error
				got, err = gateway.VerifExtractValue(ectx(nil), src, p)
				return err
			})
			checks = append(checks, fmt.Sprintf("extract_agrees %s (JObj %s) %d %s", c.Strs(p), data, ecls, c.JSON(got)))
			tgt := deepCopy(pc.Data).(map[string]interface{})
			icls, _ := callCls(func() error { return gateway.VerifInsertObject(ectx(nil), tgt, p, deepCopy(pc.Value)) })
			after := c.JSON(tgt)
			checks = append(checks, fmt.Sprintf("insert_agrees (JObj %s) %s %s %d %s", data, c.Strs(p), c.JSON(pc.Value), icls, after))
			if k < nreal && fcls == 0 {
				oracles = append(oracles, fmt.Sprintf("insert_holds %s %d %s (JObj %s) %s %d", c.paths(points), k, c.JSON(pc.Value), data, after, icls))
			}
			noPanic(ecls)
			noPanic(icls)
			doc.Dist[fmt.Sprintf("points:insert-class:%d", icls)]++
		}

		// scrub the ids at the static path (as the built-in response middleware does)
		if len(pc.Targets) > 0 && len(pc.Start) == 0 {
			plan := &gateway.QueryPlan{Operation: &ast.OperationDefinition{Operation: ast.Query, SelectionSet: ss},
				FieldsToScrub: map[string][][]string{"id": {pc.Targets}}}
			resp := deepCopy(pc.Data).(map[string]interface{})
			scls, _ := callCls(func() error { return gateway.VerifScrubInsertionIDs(ectx(plan), resp) })
			after := c.JSON(resp)
			checks = append(checks, fmt.Sprintf("scrub_agrees \"id\" %s (JObj %s) %s %d %s", fs, data, c.Strs(pc.Targets), scls, after))
			if fcls == 0 {
				oracles = append(oracles, fmt.Sprintf("scrub_holds \"id\" %s (JObj %s) %s %d", c.paths(points), data, after, scls))
			}
			noPanic(scls)
			doc.Dist[fmt.Sprintf("points:scrub-class:%d", scls)]++
		}
		if len(oracles) == 0 {
			oracles = []string{"true"}
		}
		c.Printf("Eval vm_compute in (\"%d\"%%string, %s, %s, @nil nat).\n", *id, strings.Join(checks, " && "), strings.Join(oracles, " && "))
		key, _ := json.Marshal(pc)
		doc.Cases = append(doc.Cases, CaseInfo{ID: *id, Kind: "points", Input: pc, Observed: obs, Nontrivial: len(points) >= 2 || fcls != 0, Key: string(key)})
		*id++
	}
}

func init() {
	props["PTS"] = func(cfg *runCfg) error {
		n := cfg.N
		if n == 0 {
			n = 400
		}
		r := rand.New(rand.NewSource(cfg.Seed))
		sh := NewSharder(cfg.Out, "cases_PTS", fedHeader, 120_000)
		doc := &CasesDoc{Property: "PTS", Seed: cfg.Seed, Tier: cfg.Tier, Dist: map[string]int{}}
		id := 0
		pointsCases(r, sh, doc, &id, n, nil)
		if err := sh.Flush(); err != nil {
			return err
		}
		doc.Shards = sh.Files
		return doc.Write(cfg.Out)
	}
}

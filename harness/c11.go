package main

// C11: requests are isolated and plans are reusable.  One federation, 1-2 documents planned ONCE
// each (the QueryPlanList the cache would hand to every request with that key), 2-6 requests
// with their own variables and context executed (a) each alone on a freshly planned plan (the
// reference), (b) all at once on the shared plans with service replies delayed so that the
// executions overlap, (c) once more, one after another, on the same shared plans.  The plans
// are snapshotted before and after.

import (
	"context"
	"crypto/sha256"
	"encoding/hex"
	"encoding/json"
	"fmt"
	"math/rand"
	"net/http"
	"sort"
	"strings"
	"sync"
	"time"

	"github.com/nautilus/gateway"
	"github.com/nautilus/graphql"
	"github.com/vektah/gqlparser/v2"
	"github.com/vektah/gqlparser/v2/ast"
	"github.com/vektah/gqlparser/v2/formatter"
)

func init() { props["C11"] = runC11 }

type c11Req struct {
	Doc  int                    `json:"document"`
	Vars map[string]interface{} `json:"variables"`
}

type c11Case struct {
	Fed     *FedSpec    `json:"federation"`
	Salt    uint32      `json:"salt"`
	Hostile bool        `json:"hostile_ids"`
	ReqMW   bool        `json:"request_middleware"`
	Docs    []*GenQuery `json:"documents"`
	Reqs    []c11Req    `json:"requests"`
}

// planSnapshot renders everything of a plan that a request could have changed
func planSnapshot(plans gateway.QueryPlanList) string {
	var b strings.Builder
	var sel func(ss ast.SelectionSet) string
	sel = func(ss ast.SelectionSet) string {
		var sb strings.Builder
		f := formatter.NewFormatter(&sb)
		f.FormatQueryDocument(&ast.QueryDocument{Operations: ast.OperationList{{Operation: ast.Query, SelectionSet: ss}}})
		return sb.String()
	}
	frags := func(fs ast.FragmentDefinitionList) string {
		parts := []string{}
		for _, f := range fs {
			parts = append(parts, f.Name+" on "+f.TypeCondition+" "+sel(f.SelectionSet))
		}
		return strings.Join(parts, "|")
	}
	var step func(s *gateway.QueryPlanStep, depth int)
	step = func(s *gateway.QueryPlanStep, depth int) {
		vars := []string{}
		for v := range s.Variables {
			vars = append(vars, v)
		}
		sort.Strings(vars)
		qd := ""
		if s.QueryDocument != nil {
			var sb strings.Builder
			formatter.NewFormatter(&sb).FormatQueryDocument(s.QueryDocument)
			qd = sb.String()
		}
		fmt.Fprintf(&b, "%d|%s|%s|%v|%v|%s|%s|%s|%s|%p\n", depth, locationOf(s.Queryer), s.ParentType, s.InsertionPoint, vars,
			s.QueryString, qd, sel(s.SelectionSet), frags(s.FragmentDefinitions), s.Queryer)
		for _, t := range s.Then {
			step(t, depth+1)
		}
	}
	for _, p := range plans {
		keys := []string{}
		for k := range p.FieldsToScrub {
			keys = append(keys, k)
		}
		sort.Strings(keys)
		for _, k := range keys {
			fmt.Fprintf(&b, "scrub %s %v\n", k, p.FieldsToScrub[k])
		}
		if p.Operation != nil {
			fmt.Fprintf(&b, "op %s %s\n", p.Operation.Name, sel(p.Operation.SelectionSet))
		}
		b.WriteString("frags " + frags(p.FragmentDefinitions) + "\n")
		if p.RootStep != nil {
			step(p.RootStep, 0)
		}
	}
	h := sha256.Sum256([]byte(b.String()))
	return hex.EncodeToString(h[:])
}

type c11Run struct {
	Class   int
	Note    string
	Data    map[string]interface{}
	NErrors int
	Calls   []Call
}

func c11Exec(fed *Fed, plans gateway.QueryPlanList, q *GenQuery, vars map[string]interface{}, tag int) (out c11Run) {
	defer func() {
		if p := recover(); p != nil {
			out.Class, out.Note = 3, fmt.Sprint(p)
		}
	}()
	ctx := context.WithValue(context.Background(), ctxKey{}, tag)
	rc := &gateway.RequestContext{Context: ctx, Query: q.Text, OperationName: q.OpName, Variables: vars}
	done := make(chan struct{})
	var data map[string]interface{}
	var err error
	go func() {
		defer func() {
			if p := recover(); p != nil {
				err = fmt.Errorf("PANIC %v", p)
			}
			close(done)
		}()
		data, err = fed.GW.Execute(rc, plans)
	}()
	select {
	case <-done:
	case <-time.After(8 * time.Second):
		return c11Run{Class: 4, Note: "did not return within 8s"}
	}
	out.Data = data
	if err != nil {
		out.Class, out.Note, out.NErrors = 2, err.Error(), countErrors(err)
		if strings.HasPrefix(err.Error(), "PANIC") {
			out.Class = 3
		}
	}
	return out
}

func (c *CoqFile) c11obs(r c11Run, fed *Fed) string {
	// the request middlewares a call went out with are part of the call: they travel as a pseudo variable
	calls := make([]Call, len(r.Calls))
	for i, cl := range r.Calls {
		calls[i] = cl
		if cl.ViaMW {
			vs := map[string]interface{}{}
			for k, v := range cl.Vars {
				vs[k] = v
			}
			vs["request-middlewares"] = fmt.Sprint(cl.ReqMWs)
			calls[i].Vars = vs
		}
	}
	return c.observed(fedObs{Class: r.Class, Note: r.Note, Data: r.Data, NErrors: r.NErrors, Calls: calls}, fed)
}

func splitCalls(all []Call) map[int][]Call {
	out := map[int][]Call{}
	for _, cl := range all {
		tag, _ := cl.CtxValue.(int)
		out[tag] = append(out[tag], cl)
	}
	return out
}

func runC11(cfg *runCfg) error {
	n := cfg.N
	if n == 0 {
		n = 150
		if cfg.Tier == "thorough" {
			n = 2500
		}
	}
	r := rand.New(rand.NewSource(cfg.Seed))
	sh := NewSharder(cfg.Out, "cases_C11", fedHeader, 150_000)
	doc := &CasesDoc{Property: "C11", Seed: cfg.Seed, Tier: cfg.Tier, Dist: map[string]int{}}
	var replay *c11Case
	if cfg.Replay != "" {
		var kind struct {
			Case struct {
				Kind  string          `json:"kind"`
				Input json.RawMessage `json:"input"`
			} `json:"case"`
		}
		if err := readJSON(cfg.Replay, &kind); err == nil && kind.Case.Kind == "http-batch-one-cache" {
			bc := &c11BatchCase{}
			if err := json.Unmarshal(kind.Case.Input, bc); err != nil {
				return err
			}
			bid := 0
			if err := c11BatchCases(cfg, r, sh, doc, &bid, 1, bc); err != nil {
				return err
			}
			if err := sh.Flush(); err != nil {
				return err
			}
			doc.Shards = sh.Files
			return doc.Write(cfg.Out)
		}
		var rp struct {
			Case struct {
				Input c11Case `json:"input"`
			} `json:"case"`
		}
		if err := readJSON(cfg.Replay, &rp); err != nil {
			return err
		}
		replay = &rp.Case.Input
		n = 1
	}
	for id := 0; id < n; id++ {
		cs := replay
		if cs == nil {
			g := &fedGen{r: r, MultiHomePct: []int{0, 20, 45}[r.Intn(3)], Iface: r.Intn(2) == 0}
			cs = &c11Case{Fed: g.Spec(), Salt: r.Uint32(), Hostile: r.Intn(2) == 0, ReqMW: r.Intn(2) == 0}
		}
		st := genStore(rand.New(rand.NewSource(int64(cs.Salt))), cs.Fed, cs.Hostile)
		var extra []gateway.Option
		if cs.ReqMW {
			// a gateway with a request middleware: every service hands out a wrapped copy of itself for the
			// call (svc.go: WithMiddlewares), which must not find its way into the shared plan
			extra = append(extra, gateway.WithMiddlewares(gateway.RequestMiddleware(func(req *http.Request) error {
				req.Header.Add("X-Mw", "1")
				return nil
			})))
			doc.Dist["with-request-middleware"]++
		}
		fed, err := NewFed(cs.Fed, st, rand.New(rand.NewSource(int64(cs.Salt))), extra...)
		if err != nil {
			return fmt.Errorf("federation %d does not build: %v", id, err)
		}
		if cs.ReqMW && cs.Salt%2 == 0 {
			// queryers that keep the middleware list on themselves, as the stock ones do
			for _, sv := range fed.Svcs {
				sv.InPlace = &mwState{rnd: rand.New(rand.NewSource(int64(cs.Salt) + 5))}
			}
			doc.Dist["queryers-keep-middlewares-in-place"]++
		}
		if replay == nil {
			ids := []string{}
			for _, o := range st.Objs {
				ids = append(ids, o.ID)
			}
			for len(cs.Docs) < 1+r.Intn(2) {
				k := fedKnobs(r, "C11")
				k.Variables = true
				k.Mutation = false
				k.MultiOp = 1
				q := genQuery(r, cs.Fed, st, k)
				if _, verr := gqlparser.LoadQuery(fed.Cap.Schema, q.Text); verr != nil {
					doc.Dist["generator:invalid-query"]++
					continue
				}
				cs.Docs = append(cs.Docs, q)
			}
			for i, k := 0, 2+r.Intn(5); i < k; i++ {
				d := r.Intn(len(cs.Docs))
				vars := map[string]interface{}{}
				for name, v := range cs.Docs[d].Vars {
					switch x := v.(type) {
					case bool:
						vars[name] = r.Intn(2) == 0
					case string:
						if st.Get(x) != nil && len(ids) > 0 {
							vars[name] = ids[r.Intn(len(ids))]
						} else {
							vars[name] = fmt.Sprintf("v%d-%d", i, r.Intn(100))
						}
					default:
						vars[name] = v
					}
				}
				if r.Intn(5) == 0 {
					// a request that leaves an optional variable out
					for name := range vars {
						if _, isStr := vars[name].(string); isStr && st.Get(vars[name].(string)) == nil {
							delete(vars, name)
							break
						}
					}
				}
				cs.Reqs = append(cs.Reqs, c11Req{Doc: d, Vars: vars})
			}
		}
		// the shared plans: planned once per document
		shared := make([]gateway.QueryPlanList, len(cs.Docs))
		planErr := false
		for i, q := range cs.Docs {
			p, perr := fed.Plan(q.Text)
			if perr != nil {
				planErr = true
				break
			}
			shared[i] = p
		}
		if planErr {
			doc.Dist["plan-error"]++
			continue
		}
		before := make([]string, len(shared))
		for i, p := range shared {
			before[i] = planSnapshot(p)
		}
		fed.Ctl.Fault = nil
		// (a) the reference: each request alone on a fresh plan
		solo := make([]c11Run, len(cs.Reqs))
		for i, rq := range cs.Reqs {
			fresh, perr := fed.Plan(cs.Docs[rq.Doc].Text)
			if perr != nil {
				return perr
			}
			fed.Ctl.mu.Lock()
			fed.Ctl.Calls = nil
			fed.Ctl.mu.Unlock()
			solo[i] = c11Exec(fed, fresh, cs.Docs[rq.Doc], rq.Vars, i+1)
			fed.Ctl.mu.Lock()
			solo[i].Calls = append([]Call{}, fed.Ctl.Calls...)
			fed.Ctl.mu.Unlock()
		}
		// (b) all at once on the shared plans
		fed.Ctl.mu.Lock()
		fed.Ctl.Calls = nil
		fed.Ctl.mu.Unlock()
		dr := rand.New(rand.NewSource(int64(cs.Salt) + 17))
		var dmu sync.Mutex
		fed.Ctl.Delay = func(c *Call) time.Duration {
			dmu.Lock()
			defer dmu.Unlock()
			return time.Duration(dr.Intn(1500)) * time.Microsecond
		}
		conc := make([]c11Run, len(cs.Reqs))
		var wg sync.WaitGroup
		start := make(chan struct{})
		for i, rq := range cs.Reqs {
			wg.Add(1)
			go func(i int, rq c11Req) {
				defer wg.Done()
				<-start
				conc[i] = c11Exec(fed, shared[rq.Doc], cs.Docs[rq.Doc], rq.Vars, i+1)
			}(i, rq)
		}
		close(start)
		wg.Wait()
		fed.Ctl.Delay = nil
		fed.Ctl.mu.Lock()
		byTag := splitCalls(fed.Ctl.Calls)
		fed.Ctl.Calls = nil
		fed.Ctl.mu.Unlock()
		for i := range conc {
			conc[i].Calls = byTag[i+1]
		}
		// (c) once more, sequentially, on the same plans
		again := make([]c11Run, len(cs.Reqs))
		for i, rq := range cs.Reqs {
			fed.Ctl.mu.Lock()
			fed.Ctl.Calls = nil
			fed.Ctl.mu.Unlock()
			again[i] = c11Exec(fed, shared[rq.Doc], cs.Docs[rq.Doc], rq.Vars, i+1)
			fed.Ctl.mu.Lock()
			again[i].Calls = append([]Call{}, fed.Ctl.Calls...)
			fed.Ctl.mu.Unlock()
		}
		// (d) all at once again, each request through the whole path this time: it plans its own
		// document while the others plan theirs, then executes (the planner, the planning context
		// and the plan cache's entry point are shared by concurrent requests too)
		fed.Ctl.mu.Lock()
		fed.Ctl.Calls = nil
		fed.Ctl.mu.Unlock()
		full := make([]c11Run, len(cs.Reqs))
		var wg2 sync.WaitGroup
		start2 := make(chan struct{})
		for i, rq := range cs.Reqs {
			wg2.Add(1)
			go func(i int, rq c11Req) {
				defer wg2.Done()
				<-start2
				own, perr := fed.Plan(cs.Docs[rq.Doc].Text)
				if perr != nil {
					full[i] = c11Run{Class: 2, Note: "planning failed: " + perr.Error()}
					return
				}
				full[i] = c11Exec(fed, own, cs.Docs[rq.Doc], rq.Vars, i+1)
			}(i, rq)
		}
		close(start2)
		wg2.Wait()
		fed.Ctl.mu.Lock()
		byTag2 := splitCalls(fed.Ctl.Calls)
		fed.Ctl.Calls = nil
		fed.Ctl.mu.Unlock()
		for i := range full {
			full[i].Calls = byTag2[i+1]
		}
		stray2 := len(byTag2[0])
		after := make([]string, len(shared))
		for i, p := range shared {
			after[i] = planSnapshot(p)
		}
		total := 0
		for _, sl := range solo {
			total += len(sl.Calls)
		}
		if total > 150 && replay == nil {
			// the comparison of the call multisets is quadratic: very large groups are left to the thorough tier
			doc.Dist["skipped:more-than-150-calls"]++
			if cfg.Tier != "thorough" {
				continue
			}
		}
		c := sh.File()
		reqs := []string{}
		stray := len(byTag[0])
		for i, rq := range cs.Reqs {
			reqs = append(reqs, fmt.Sprintf("{| ro_vars := %s; ro_solo := %s; ro_conc := %s; ro_again := %s; ro_full := %s |}",
				c.vars(rq.Vars), c.c11obs(solo[i], fed), c.c11obs(conc[i], fed), c.c11obs(again[i], fed), c.c11obs(full[i], fed)))
		}
		// "executing never changes the plan" is the property's own words: the snapshot comparison is
		// part of the oracle (there is no model component in these cases)
		c.Printf("Eval vm_compute in (\"%d\"%%string, true, plans_unchanged %s %s && c11_holds %d [%s], @nil nat).\n", id,
			c.Strs(before), c.Strs(after), stray+stray2, strings.Join(reqs, "; "))
		key, _ := json.Marshal(cs)
		ncalls := 0
		for _, s := range solo {
			ncalls += len(s.Calls)
		}
		doc.Dist[fmt.Sprintf("requests:%d", len(cs.Reqs))]++
		doc.Dist["calls:"+bucket(ncalls)]++
		doc.Dist[fmt.Sprintf("documents:%d", len(cs.Docs))]++
		obsj := map[string]interface{}{"plans_before": before, "plans_after": after, "solo_calls": ncalls, "stray_calls": stray}
		doc.Cases = append(doc.Cases, CaseInfo{ID: id, Kind: "concurrent-requests", Input: cs, Observed: obsj,
			Nontrivial: len(cs.Reqs) >= 3 && ncalls >= 4, Key: string(key)})
	}
	if replay == nil {
		// the operations of one HTTP batch, through one plan cache
		nb := 30
		if cfg.Tier == "thorough" {
			nb = 300
		}
		bid := n
		if err := c11BatchCases(cfg, rand.New(rand.NewSource(cfg.Seed+131)), sh, doc, &bid, nb, nil); err != nil {
			return err
		}
	}
	if err := sh.Flush(); err != nil {
		return err
	}
	doc.Shards = sh.Files
	return doc.Write(cfg.Out)
}

var _ graphql.Queryer = (*Service)(nil)

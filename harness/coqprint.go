package main

import (
	"bytes"
	"encoding/json"
	"fmt"
	"os"
	"path/filepath"
	"sort"
	"strconv"
	"strings"

	"github.com/nautilus/graphql"
)

// CoqFile accumulates one cases_*.v shard. Strings are interned: each distinct string is one
// Definition at the top of the file (a literal costs ~10 constructors per byte to elaborate).
type CoqFile struct {
	header string
	strs   map[string]string
	order  []string
	terms  map[string]string
	tdefs  bytes.Buffer
	body   bytes.Buffer
}

// Intern gives a (large, often repeated) term a name of its own: one Definition per distinct text.
func (c *CoqFile) Intern(prefix, typ, term string) string {
	if c.terms == nil {
		c.terms = map[string]string{}
	}
	key := typ + "|" + term
	if n, ok := c.terms[key]; ok {
		return n
	}
	n := prefix + strconv.Itoa(len(c.terms))
	c.terms[key] = n
	fmt.Fprintf(&c.tdefs, "Definition %s : %s := %s.\n", n, typ, term)
	return n
}

func NewCoqFile(header string) *CoqFile {
	return &CoqFile{header: header, strs: map[string]string{}}
}

func coqLit(s string) string {
	return `"` + strings.ReplaceAll(s, `"`, `""`) + `"`
}

// S returns the name of the interned string.
func (c *CoqFile) S(s string) string {
	if n, ok := c.strs[s]; ok {
		return n
	}
	n := "s" + strconv.Itoa(len(c.order))
	c.strs[s] = n
	c.order = append(c.order, s)
	return n
}

func (c *CoqFile) Strs(l []string) string {
	parts := make([]string, len(l))
	for i, s := range l {
		parts[i] = c.S(s)
	}
	return "[" + strings.Join(parts, "; ") + "]"
}

func (c *CoqFile) Printf(format string, args ...interface{}) {
	fmt.Fprintf(&c.body, format, args...)
}

func (c *CoqFile) Size() int { return c.body.Len() + c.tdefs.Len() }

func (c *CoqFile) Write(path string) error {
	var out bytes.Buffer
	out.WriteString(c.header)
	out.WriteString("\nSet Printing Width 1000000.\nSet Printing Depth 1000000.\n")
	for i, s := range c.order {
		fmt.Fprintf(&out, "Definition s%d : string := %s%%string.\n", i, coqLit(s))
	}
	out.Write(c.tdefs.Bytes())
	out.Write(c.body.Bytes())
	return os.WriteFile(path, out.Bytes(), 0o644)
}

// JSON prints a decoded JSON value (as Go's encoding/json produces it, plus uploads) as a
// GW.Base.Json.json term with object keys sorted.
func (c *CoqFile) JSON(v interface{}) string {
	switch x := v.(type) {
	case nil:
		return "JNull"
	case bool:
		if x {
			return "(JBool true)"
		}
		return "(JBool false)"
	case float64:
		return "(JNum " + c.S(strconv.FormatFloat(x, 'g', -1, 64)) + ")"
	case int:
		return "(JNum " + c.S(strconv.Itoa(x)) + ")"
	case json.Number:
		return "(JNum " + c.S(string(x)) + ")"
	case string:
		return "(JStr " + c.S(x) + ")"
	case graphql.Upload:
		return "(JFile " + c.S(x.FileName) + ")"
	case *graphql.Upload:
		return "(JFile " + c.S(x.FileName) + ")"
	case fileMark:
		return "(JFile " + c.S(string(x)) + ")"
	case []interface{}:
		parts := make([]string, len(x))
		for i, e := range x {
			parts[i] = c.JSON(e)
		}
		return "(JArr [" + strings.Join(parts, "; ") + "])"
	case []map[string]interface{}:
		parts := make([]string, len(x))
		for i, e := range x {
			parts[i] = c.JSON(e)
		}
		return "(JArr [" + strings.Join(parts, "; ") + "])"
	case map[string]interface{}:
		return "(JObj " + c.JSONMap(x) + ")"
	default:
		return "(JStr " + c.S(fmt.Sprintf("<?%T %v>", v, v)) + ")"
	}
}

func (c *CoqFile) JSONMap(x map[string]interface{}) string {
	keys := make([]string, 0, len(x))
	for k := range x {
		keys = append(keys, k)
	}
	sort.Strings(keys)
	parts := make([]string, len(keys))
	for i, k := range keys {
		parts[i] = "(" + c.S(k) + ", " + c.JSON(x[k]) + ")"
	}
	return "[" + strings.Join(parts, "; ") + "]"
}

// fileMark is a placeholder for an uploaded file in values that are only printed.
type fileMark string

func coqBool(b bool) string {
	if b {
		return "true"
	}
	return "false"
}

// Sharder splits cases over several files of bounded size.
type Sharder struct {
	dir, prefix, header string
	maxBytes            int
	cur                 *CoqFile
	n                   int
	Files               []string
}

func NewSharder(dir, prefix, header string, maxBytes int) *Sharder {
	return &Sharder{dir: dir, prefix: prefix, header: header, maxBytes: maxBytes}
}

func (s *Sharder) File() *CoqFile {
	if s.cur == nil || s.cur.Size() > s.maxBytes {
		if err := s.Flush(); err != nil {
			panic(err)
		}
		s.cur = NewCoqFile(s.header)
	}
	return s.cur
}

func (s *Sharder) Flush() error {
	if s.cur == nil {
		return nil
	}
	name := fmt.Sprintf("%s_%d.v", s.prefix, s.n)
	s.n++
	p := filepath.Join(s.dir, name)
	s.Files = append(s.Files, name)
	err := s.cur.Write(p)
	s.cur = nil
	return err
}

// CaseInfo is the JSON description of one case, kept for replays and evidence samples.
type CaseInfo struct {
	ID         int         `json:"id"`
	Kind       string      `json:"kind"`
	Input      interface{} `json:"input"`
	Observed   interface{} `json:"observed"`
	Nontrivial bool        `json:"nontrivial"`
	Tags       []string    `json:"tags,omitempty"`
	Key        string      `json:"key,omitempty"`
}

type CasesDoc struct {
	Property string         `json:"property"`
	Seed     int64          `json:"seed"`
	Tier     string         `json:"tier"`
	Shards   []string       `json:"shards"`
	Cases    []CaseInfo     `json:"cases"`
	Dist     map[string]int `json:"distribution"`
	Notes    []string       `json:"notes,omitempty"`
	Extra    interface{}    `json:"extra,omitempty"`
}

func (d *CasesDoc) Write(dir string) error {
	b, err := json.MarshalIndent(d, "", " ")
	if err != nil {
		return err
	}
	return os.WriteFile(filepath.Join(dir, "cases.json"), b, 0o644)
}

package main

import (
	"context"
	"fmt"
	"math/rand"
	"sort"
	"strings"
	"sync"

	"github.com/nautilus/gateway"
	"github.com/nautilus/graphql"
	"github.com/vektah/gqlparser/v2"
	"github.com/vektah/gqlparser/v2/ast"
)

// capPlanner wraps the real planner to capture the merged schema and routing table it is given.
type capPlanner struct {
	mu     sync.Mutex // (requests plan concurrently in C11)
	inner  *gateway.MinQueriesPlanner
	Schema *ast.Schema
	Locs   gateway.FieldURLMap
}

func (p *capPlanner) Plan(ctx *gateway.PlanningContext) (gateway.QueryPlanList, error) {
	p.mu.Lock()
	p.Schema = ctx.Schema
	p.Locs = ctx.Locations
	p.mu.Unlock()
	return p.inner.Plan(ctx)
}
func (p *capPlanner) WithQueryerFactory(f *gateway.QueryerFactory) gateway.QueryPlanner {
	p.inner.WithQueryerFactory(f)
	return p
}
func (p *capPlanner) WithLocationPriorities(pr []string) gateway.QueryPlanner {
	p.inner.WithLocationPriorities(pr)
	return p
}

// fedLogger records the executor's "Spawn <realised insertion point>" lines
type fedLogger struct{ f *Fed }

func (l fedLogger) Debug(args ...interface{}) {}
func (l fedLogger) Info(args ...interface{}) {
	if len(args) == 2 {
		if s, ok := args[0].(string); ok && strings.HasPrefix(s, "Spawn") {
			if ip, ok := args[1].([]string); ok {
				l.f.Ctl.mu.Lock()
				l.f.Spawns = append(l.f.Spawns, strings.Join(ip, "/"))
				l.f.Ctl.mu.Unlock()
			}
		}
	}
}
func (l fedLogger) Warn(args ...interface{})                              {}
func (l fedLogger) WithFields(fields gateway.LoggerFields) gateway.Logger { return l }
func (l fedLogger) QueryPlanStep(step *gateway.QueryPlanStep)             {}

type Fed struct {
	Spawns []string
	Spec   *FedSpec
	GW     *gateway.Gateway
	Cap    *capPlanner
	Store  *Store
	Ctl    *Controller
	Svcs   map[string]*Service
	SDL    map[string]string
	// a second gateway over the same services, configured with a prefix of the same priority list
	neighbour *gateway.Gateway
}

// NewFed builds the gateway over in-process services. optOrder permutes the order in which the
// options are handed to gateway.New (the result must not depend on it).
func NewFed(spec *FedSpec, st *Store, r *rand.Rand, extra ...gateway.Option) (*Fed, error) {
	f := &Fed{Spec: spec, Store: st, Ctl: &Controller{}, Svcs: map[string]*Service{}, SDL: map[string]string{}}
	srcs := []*graphql.RemoteSchema{}
	for _, name := range spec.Services {
		sdl := spec.SDL(name)
		f.SDL[name] = sdl
		sch, err := graphql.LoadSchema(sdl)
		if err != nil {
			return nil, fmt.Errorf("service %s schema: %v\n%s", name, err, sdl)
		}
		f.Svcs[name] = &Service{Name: name, Schema: sch, Store: st, Ctl: f.Ctl}
		srcs = append(srcs, &graphql.RemoteSchema{Schema: sch, URL: name})
	}
	qf := gateway.QueryerFactory(func(ctx *gateway.PlanningContext, url string) graphql.Queryer {
		return f.Svcs[url]
	})
	f.Cap = &capPlanner{inner: &gateway.MinQueriesPlanner{}}
	opts := []gateway.Option{gateway.WithPlanner(f.Cap), gateway.WithQueryerFactory(&qf), gateway.WithLogger(fedLogger{f})}
	if spec.HasPrio {
		// the operator's list has room to spare, and a second gateway of the same operator is configured
		// with the first entry of the very same list: neither may see anything of the other (Disturb)
		pref := make([]string, len(spec.Priorities), len(spec.Priorities)+3)
		copy(pref, spec.Priorities)
		opts = append(opts, gateway.WithLocationPriorities(pref))
		if len(pref) >= 2 {
			nqf := gateway.QueryerFactory(func(ctx *gateway.PlanningContext, url string) graphql.Queryer { return f.Svcs[url] })
			if nb, nerr := gateway.New(srcs, gateway.WithQueryerFactory(&nqf), gateway.WithLogger(fedLogger{f}), gateway.WithLocationPriorities(pref[:1])); nerr == nil {
				f.neighbour = nb
			}
		}
	}
	opts = append(opts, extra...)
	if r != nil {
		r.Shuffle(len(opts), func(i, j int) { opts[i], opts[j] = opts[j], opts[i] })
	}
	gw, err := gateway.New(srcs, opts...)
	if err != nil {
		return nil, err
	}
	f.GW = gw
	// make the planner see the schema once so that Cap is filled
	_, _ = gw.GetPlans(&gateway.RequestContext{Context: context.Background(), Query: "{ __typename }"})
	return f, nil
}

// Disturb lets the neighbouring gateway (same operator, same priority list object, its own
// configuration) plan the query first
func (f *Fed) Disturb(query string) {
	if f.neighbour != nil {
		_, _ = f.neighbour.GetPlans(&gateway.RequestContext{Context: context.Background(), Query: query})
	}
}

// Plan returns the plans of a query (no execution)
func (f *Fed) Plan(query string) (gateway.QueryPlanList, error) {
	return f.GW.GetPlans(&gateway.RequestContext{Context: context.Background(), Query: query})
}

// Run plans and executes; returns data, planning error, execution error
func (f *Fed) Run(ctx context.Context, query, op string, vars map[string]interface{}) (map[string]interface{}, error, error) {
	rc := &gateway.RequestContext{Context: ctx, Query: query, OperationName: op, Variables: vars}
	plans, err := f.GW.GetPlans(rc)
	if err != nil {
		return nil, err, nil
	}
	res, err := f.GW.Execute(rc, plans)
	return res, nil, err
}

// Mono evaluates the query on the merged schema over the whole store
func (f *Fed) Mono(query, op string, vars map[string]interface{}) (map[string]interface{}, error) {
	doc, errs := gqlparser.LoadQuery(f.Cap.Schema, query)
	if errs != nil {
		return nil, errs
	}
	var o *ast.OperationDefinition
	if len(doc.Operations) == 1 {
		o = doc.Operations[0]
	} else {
		o = doc.Operations.ForName(op)
	}
	if o == nil {
		return nil, fmt.Errorf("no operation %q", op)
	}
	rt := "Query"
	if o.Operation == ast.Mutation {
		rt = "Mutation"
	}
	it := &interp{schema: f.Cap.Schema, store: f.Store, doc: doc, vars: withDefaults(o, vars)}
	return it.exec(o.SelectionSet, nil, rt), nil
}

// ---------------------------------------------------------------------------------------------
// plan dump

type StepDump struct {
	Location       string      `json:"location"`
	ParentType     string      `json:"parent_type"`
	InsertionPoint []string    `json:"insertion_point"`
	Variables      []string    `json:"variables"`
	Query          string      `json:"query"`
	Then           []*StepDump `json:"then,omitempty"`
	step           *gateway.QueryPlanStep
}

func locationOf(q graphql.Queryer) string {
	switch x := q.(type) {
	case *Service:
		if x == nil {
			return ""
		}
		return x.Name
	case *gateway.Gateway:
		return "🎉"
	case nil:
		return "<nil>"
	default:
		return fmt.Sprintf("<%T>", q)
	}
}

func dumpStep(s *gateway.QueryPlanStep) *StepDump {
	d := &StepDump{Location: locationOf(s.Queryer), ParentType: s.ParentType, InsertionPoint: append([]string{}, s.InsertionPoint...), Query: s.QueryString, step: s}
	for v := range s.Variables {
		d.Variables = append(d.Variables, v)
	}
	sort.Strings(d.Variables)
	for _, t := range s.Then {
		d.Then = append(d.Then, dumpStep(t))
	}
	sort.SliceStable(d.Then, func(i, j int) bool {
		a, b := d.Then[i], d.Then[j]
		ka := strings.Join(a.InsertionPoint, "/") + "|" + a.Location + "|" + a.Query
		kb := strings.Join(b.InsertionPoint, "/") + "|" + b.Location + "|" + b.Query
		return ka < kb
	})
	return d
}

// routedField is one field occurrence of a step's document with the response path it fills
type routedField struct {
	Path []string `json:"path"`
	Name string   `json:"name"`
	Loc  string   `json:"loc"`
}

// stepFields lists every client-visible field of a step's selection (through its fragments) with
// its response path; fields synthesised by the planner (empty alias) are reported separately.
func stepFields(s *gateway.QueryPlanStep, loc string, out *[]routedField, injected *[]routedField) {
	var walk func(ss ast.SelectionSet, path []string, seen map[string]bool)
	walk = func(ss ast.SelectionSet, path []string, seen map[string]bool) {
		for _, sel := range ss {
			switch x := sel.(type) {
			case *ast.Field:
				key := x.Alias
				if key == "" {
					p := append(append([]string{}, path...), x.Name)
					*injected = append(*injected, routedField{p, x.Name, loc})
					continue
				}
				p := append(append([]string{}, path...), key)
				*out = append(*out, routedField{p, x.Name, loc})
				walk(x.SelectionSet, p, seen)
			case *ast.InlineFragment:
				walk(x.SelectionSet, path, seen)
			case *ast.FragmentSpread:
				if def := s.FragmentDefinitions.ForName(x.Name); def != nil && !seen[x.Name] {
					seen2 := map[string]bool{x.Name: true}
					for k := range seen {
						seen2[k] = true
					}
					walk(def.SelectionSet, path, seen2)
				}
			}
		}
	}
	walk(s.SelectionSet, append([]string{}, s.InsertionPoint...), map[string]bool{})
	for _, t := range s.Then {
		stepFields(t, locationOf(t.Queryer), out, injected)
	}
}

module gwharness

go 1.17

require (
	github.com/nautilus/gateway v0.0.0
	github.com/nautilus/graphql v0.0.26
	github.com/vektah/gqlparser/v2 v2.5.16
)

require (
	github.com/99designs/gqlgen v0.17.15 // indirect
	github.com/agnivade/levenshtein v1.1.1 // indirect
	github.com/graph-gophers/dataloader v5.0.0+incompatible // indirect
	github.com/mitchellh/mapstructure v1.4.1 // indirect
	github.com/opentracing/opentracing-go v1.2.0 // indirect
	github.com/pkg/errors v0.9.1 // indirect
	github.com/sirupsen/logrus v1.9.3 // indirect
	golang.org/x/sys v0.18.0 // indirect
)

replace github.com/nautilus/gateway => /repo

package main

import (
	"context"
	"encoding/json"
	"fmt"
	"math/rand"
	"os"
)

func init() { props["DBG"] = runDBG }

// DBG: -replay <file with case.input.{federation,salt}> ; env DBGQ = query ; runs it 30 times
func runDBG(cfg *runCfg) error {
	var rp struct {
		Case struct {
			Input struct {
				Fed  *FedSpec `json:"federation"`
				Salt uint32   `json:"salt"`
				Host bool     `json:"hostile_ids"`
			} `json:"input"`
		} `json:"case"`
	}
	if err := readJSON(cfg.Replay, &rp); err != nil {
		return err
	}
	in := rp.Case.Input
	st := genStore(rand.New(rand.NewSource(int64(in.Salt))), in.Fed, in.Host)
	fed, err := NewFed(in.Fed, st, rand.New(rand.NewSource(int64(in.Salt))))
	if err != nil {
		return err
	}
	q := os.Getenv("DBGQ")
	var qvars map[string]interface{}
	if q == "" {
		var rq struct {
			Query *GenQuery `json:"query"`
		}
		_ = readJSON(cfg.Replay, &rq)
		if rq.Query != nil {
			q = rq.Query.Text
			qvars = rq.Query.Vars
			fmt.Println("query:", q, qvars)
		}
	}
	if os.Getenv("DBGPLAN") != "" {
		if plans, perr := fed.Plan(q); perr == nil {
			for _, pl := range plans {
				b, _ := json.MarshalIndent(dumpStep(pl.RootStep), "", " ")
				fmt.Println(string(b))
			}
		} else {
			fmt.Println("plan error:", perr)
		}
	}
	seen := map[string]int{}
	for i := 0; i < 30; i++ {
		fed.Ctl.Calls = nil
		d, pe, ee := fed.Run(context.Background(), q, "", qvars)
		b, _ := json.Marshal(d)
		k := fmt.Sprintf("%s | planErr=%v execErr=%v", b, pe, ee)
		if seen[k] == 0 {
			fmt.Println(k)
			for _, c := range fed.Ctl.Calls {
				fmt.Printf("    %s: %s %v\n", c.Service, c.Query, c.Vars)
			}
		}
		seen[k]++
	}
	fmt.Println(len(seen), "distinct outcomes")
	mono, _ := fed.Mono(q, "", qvars)
	b, _ := json.Marshal(mono)
	fmt.Println("mono:", string(b))
	return nil
}

package main

// Generator of service schema lists for the merge properties (C03, C09, C10): a universe of
// named definitions, each service declaring a subset (objects with a subset of their fields),
// plus, optionally, ONE single-point incompatibility injected into one service's copy.

import (
	"fmt"
	"math/rand"
	"strings"
)

type mField struct {
	Name, Args, Type, Dirs, Desc string
}

type mDef struct {
	Kind    string // type | interface | input | enum | union | scalar | directive
	Name    string
	Impl    []string
	Fields  []mField
	Values  []string // enum values / union members
	Dirs    string
	Desc    string
	Locs    []string // directive locations
	DirArgs string
}

func (d *mDef) clone() *mDef {
	c := *d
	c.Impl = append([]string{}, d.Impl...)
	c.Fields = append([]mField{}, d.Fields...)
	c.Values = append([]string{}, d.Values...)
	c.Locs = append([]string{}, d.Locs...)
	return &c
}

func desc(s string) string {
	if s == "" {
		return ""
	}
	return fmt.Sprintf("%q\n", s)
}

func (d *mDef) SDL() string {
	var b strings.Builder
	b.WriteString(desc(d.Desc))
	switch d.Kind {
	case "scalar":
		fmt.Fprintf(&b, "scalar %s%s\n", d.Name, d.Dirs)
	case "enum":
		fmt.Fprintf(&b, "enum %s%s { %s }\n", d.Name, d.Dirs, strings.Join(d.Values, " "))
	case "union":
		fmt.Fprintf(&b, "union %s%s = %s\n", d.Name, d.Dirs, strings.Join(d.Values, " | "))
	case "directive":
		fmt.Fprintf(&b, "directive @%s%s on %s\n", d.Name, d.DirArgs, strings.Join(d.Locs, " | "))
	default:
		impl := ""
		if len(d.Impl) > 0 {
			impl = " implements " + strings.Join(d.Impl, " & ")
		}
		fmt.Fprintf(&b, "%s %s%s%s {\n", d.Kind, d.Name, impl, d.Dirs)
		for _, f := range d.Fields {
			fmt.Fprintf(&b, "  %s%s%s: %s%s\n", desc(f.Desc), f.Name, f.Args, f.Type, f.Dirs)
		}
		b.WriteString("}\n")
	}
	return b.String()
}

func mergeUniverse() []*mDef {
	return []*mDef{
		{Kind: "interface", Name: "Entity", Fields: []mField{{Name: "id", Type: "ID!"}}},
		{Kind: "interface", Name: "Node", Impl: []string{"Entity"}, Fields: []mField{{Name: "id", Type: "ID!"}}},
		{Kind: "interface", Name: "Named", Dirs: " @tag(name: \"n\")", Fields: []mField{{Name: "name", Type: "String", Args: "(upper: Boolean = false)"}, {Name: "slug", Type: "String!"}}, Desc: "things with names"},
		{Kind: "type", Name: "User", Impl: []string{"Node", "Named", "Entity"}, Fields: []mField{
			{Name: "id", Type: "ID!"}, {Name: "name", Type: "String", Args: "(upper: Boolean = false)"}, {Name: "slug", Type: "String!"},
			{Name: "age", Type: "Int", Desc: "in years"}, {Name: "posts", Args: "(first: Int = 10, tags: [String!] = [\"a\"])", Type: "[Post!]"},
			{Name: "role", Type: "Role"}, {Name: "joined", Type: "Date", Dirs: " @tag(name: \"d\")"}, {Name: "matrix", Type: "[[Int!]]!"}}},
		{Kind: "type", Name: "Post", Impl: []string{"Node", "Entity"}, Dirs: " @tag(name: \"p\")", Fields: []mField{
			{Name: "id", Type: "ID!"}, {Name: "title", Type: "String!"}, {Name: "author", Type: "User"},
			{Name: "related", Args: "(filter: Filter)", Type: "[Post]"}, {Name: "kind", Type: "Role!"}}},
		{Kind: "enum", Name: "Role", Dirs: " @tag(name: \"r\")", Values: []string{"ADMIN", "USER", "GUEST"}, Desc: "roles"},
		{Kind: "input", Name: "Filter", Fields: []mField{{Name: "q", Type: "String = \"x\""}, {Name: "limit", Type: "Int"}, {Name: "roles", Type: "[Role!] = [USER]"}}},
		{Kind: "union", Name: "Media", Dirs: " @tag(name: \"m\")", Values: []string{"Post", "User"}},
		{Kind: "scalar", Name: "Date"},
		{Kind: "directive", Name: "tag", DirArgs: "(name: String = \"t\")", Locs: []string{"FIELD_DEFINITION", "OBJECT", "FIELD", "INTERFACE", "ENUM", "UNION", "ARGUMENT_DEFINITION"}},
		{Kind: "directive", Name: "auth", DirArgs: "(role: Role)", Locs: []string{"QUERY", "FIELD_DEFINITION"}},
		{Kind: "type", Name: "Query", Fields: []mField{
			{Name: "me", Type: "User"}, {Name: "posts", Args: "(filter: Filter, first: Int = 5)", Type: "[Post]"},
			{Name: "media", Type: "[Media]"}, {Name: "now", Type: "Date"}, {Name: "named", Type: "[Named]"}, {Name: "_meta", Type: "String"}}},
		{Kind: "type", Name: "Mutation", Fields: []mField{{Name: "touch", Args: "(id: ID!)", Type: "Post"}}},
		{Kind: "type", Name: "Subscription", Fields: []mField{{Name: "postChanged", Args: "(id: ID!)", Type: "Post"}, {Name: "ticks", Type: "Int"}}},
	}
}

type mSvc struct {
	Name string  `json:"name"`
	Defs []*mDef `json:"-"`
	SDL  string  `json:"sdl"`
}

func (s *mSvc) def(name string) *mDef {
	for _, d := range s.Defs {
		if d.Name == name {
			return d
		}
	}
	return nil
}

func (s *mSvc) render() {
	var b strings.Builder
	for _, d := range s.Defs {
		b.WriteString(d.SDL())
	}
	s.SDL = b.String()
}

var builtinNames = map[string]bool{"String": true, "Int": true, "Boolean": true, "ID": true, "Float": true}

func baseName(t string) string {
	t = strings.Split(t, "=")[0]
	return strings.Trim(strings.TrimSpace(t), "[]! ")
}

// closeSvc adds whatever the service's definitions refer to
func closeSvc(s *mSvc, uni []*mDef) {
	find := func(n string) *mDef {
		for _, d := range uni {
			if d.Name == n {
				return d
			}
		}
		return nil
	}
	need := func(n string, full bool) bool {
		if builtinNames[n] || n == "" || s.def(n) != nil {
			return false
		}
		u := find(n)
		if u == nil {
			return false
		}
		c := u.clone()
		if c.Kind == "type" && !full {
			// a stub: id, plus what its interfaces demand
			keep := []mField{}
			for _, f := range c.Fields {
				if f.Name == "id" || f.Name == "name" || f.Name == "slug" {
					keep = append(keep, f)
				}
			}
			for i := range keep {
				keep[i].Dirs = ""
			}
			c.Fields = keep
			c.Dirs = u.Dirs
		}
		s.Defs = append(s.Defs, c)
		return true
	}
	for changed := true; changed; {
		changed = false
		for _, d := range append([]*mDef{}, s.Defs...) {
			for _, i := range d.Impl {
				changed = need(i, true) || changed
			}
			for _, f := range d.Fields {
				changed = need(baseName(f.Type), false) || changed
				if strings.Contains(f.Args, "Filter") {
					changed = need("Filter", true) || changed
				}
				if strings.Contains(f.Dirs, "@tag") || strings.Contains(f.Args, "@tag") {
					changed = need("tag", true) || changed
				}
			}
			if strings.Contains(d.Dirs, "@tag") {
				changed = need("tag", true) || changed
			}
			if strings.Contains(d.DirArgs, "Role") {
				changed = need("Role", true) || changed
			}
			if d.Kind == "union" {
				for _, m := range d.Values {
					changed = need(m, false) || changed
				}
			}
		}
	}
	// object types must carry the fields of the interfaces they implement
	for _, d := range s.Defs {
		if d.Kind != "type" {
			continue
		}
		for _, in := range d.Impl {
			id := s.def(in)
			if id == nil {
				continue
			}
			for _, f := range id.Fields {
				has := false
				for _, g := range d.Fields {
					has = has || g.Name == f.Name
				}
				if !has {
					u := find(d.Name)
					for _, g := range u.Fields {
						if g.Name == f.Name {
							d.Fields = append(d.Fields, g)
						}
					}
				}
			}
		}
	}
}

type mergeCase struct {
	Services []*mSvc  `json:"services"`
	Mutation string   `json:"mutation"`
	Orders   [][]int  `json:"orders"`
	Tags     []string `json:"tags,omitempty"`
	// a difference between the services' copies of one name that is none of the incompatibilities
	// C09 lists: whatever mergeSchemas makes of it, it must make the same of it in every order
	Variation string `json:"variation,omitempty"`
	// the services' schemas as an introspection of them would give them: Query without the
	// __schema and __type fields, which then come from the gateway's own schema only
	Strip bool `json:"strip_introspection_fields,omitempty"`
}

// universeHook, when set, adjusts the universe the merge cases are drawn from (C14 adds
// deprecations, a specified scalar and a repeatable directive)
var universeHook func([]*mDef) []*mDef

func genMergeCase(r *rand.Rand, injectPct int) *mergeCase {
	uni := mergeUniverse()
	if universeHook != nil {
		uni = universeHook(uni)
	}
	nsvc := 2 + r.Intn(3)
	mc := &mergeCase{}
	for i := 0; i < nsvc; i++ {
		s := &mSvc{Name: string(rune('A' + i))}
		for _, u := range uni {
			if r.Intn(100) < 45 || (u.Name == "Query" && i == 0) {
				c := u.clone()
				if c.Kind == "type" {
					keep := []mField{}
					for _, f := range c.Fields {
						if f.Name == "id" || r.Intn(100) < 60 {
							keep = append(keep, f)
						}
					}
					if len(keep) == 0 {
						keep = append(keep, c.Fields[0])
					}
					// services may list shared fields in a different order
					if r.Intn(3) == 0 {
						r.Shuffle(len(keep), func(a, b int) { keep[a], keep[b] = keep[b], keep[a] })
					}
					c.Fields = keep
				}
				if c.Kind == "enum" || c.Kind == "union" {
					if r.Intn(3) == 0 {
						r.Shuffle(len(c.Values), func(a, b int) { c.Values[a], c.Values[b] = c.Values[b], c.Values[a] })
					}
				}
				if r.Intn(3) == 0 {
					c.Desc = ""
				} else if r.Intn(4) == 0 {
					c.Desc = "described by " + s.Name
				}
				s.Defs = append(s.Defs, c)
			}
		}
		closeSvc(s, uni)
		if s.def("Query") == nil {
			q := &mDef{Kind: "type", Name: "Query", Fields: []mField{{Name: "ping" + s.Name, Type: "String"}}}
			s.Defs = append(s.Defs, q)
		}
		mc.Services = append(mc.Services, s)
	}
	if nsvc >= 3 && r.Intn(5) == 0 {
		// an object type split over the services with no field in common (no id either): the first
		// service declares three fields, every other one a single field of its own -- whatever a merge
		// does with the first service's field list, it has room for exactly one more entry
		// ... and each part implements interfaces of its own: three in the first service (the list of
		// their names has room for exactly one more), one in every other service, whose name sorts
		// between them
		for i, s := range mc.Services {
			d := &mDef{Kind: "type", Name: "Stats"}
			if i == 0 {
				d.Fields = []mField{{Name: "views", Type: "Int"}, {Name: "likes", Type: "Int"}, {Name: "since", Type: "String"}}
				d.Impl = []string{"HasViews", "Liked", "Zoned"}
				s.Defs = append(s.Defs,
					&mDef{Kind: "interface", Name: "HasViews", Fields: []mField{{Name: "views", Type: "Int"}}},
					&mDef{Kind: "interface", Name: "Liked", Fields: []mField{{Name: "likes", Type: "Int"}}},
					&mDef{Kind: "interface", Name: "Zoned", Fields: []mField{{Name: "since", Type: "String"}}})
			} else {
				d.Fields = []mField{{Name: "count" + s.Name, Type: "Int"}}
				d.Impl = []string{"Jcount" + s.Name}
				s.Defs = append(s.Defs, &mDef{Kind: "interface", Name: "Jcount" + s.Name, Fields: []mField{{Name: "count" + s.Name, Type: "Int"}}})
			}
			s.Defs = append(s.Defs, d)
		}
		mc.Tags = append(mc.Tags, "disjoint-object-parts")
	}
	if r.Intn(100) < injectPct {
		mc.Mutation = injectIncompat(r, mc, uni)
	}
	if mc.Mutation == "" && r.Intn(100) < 25 {
		mc.Variation = varyCopy(r, mc)
	}
	mc.Strip = r.Intn(4) == 0
	for _, s := range mc.Services {
		closeSvc(s, uni)
		s.render()
	}
	// orders: identity, reverse, and random permutations
	id := make([]int, nsvc)
	for i := range id {
		id[i] = i
	}
	rev := make([]int, nsvc)
	for i := range rev {
		rev[i] = nsvc - 1 - i
	}
	mc.Orders = [][]int{id, rev}
	for k := 0; k < 2; k++ {
		mc.Orders = append(mc.Orders, r.Perm(nsvc))
	}
	return mc
}

// varyCopy changes one service's copy of a shared interface, enum or union in a way the list of
// incompatibilities does not mention: the interfaces an interface implements, the directives
// applied to the type itself
func varyCopy(r *rand.Rand, mc *mergeCase) string {
	type cand struct {
		s *mSvc
		d *mDef
	}
	var cs []cand
	for i, s := range mc.Services {
		for _, d := range s.Defs {
			if d.Kind != "interface" && d.Kind != "enum" && d.Kind != "union" && d.Kind != "type" {
				continue
			}
			for j, o := range mc.Services {
				if i != j && o.def(d.Name) != nil {
					cs = append(cs, cand{s, d})
					break
				}
			}
		}
	}
	if len(cs) == 0 {
		return ""
	}
	for try := 0; try < 10; try++ {
		c := cs[r.Intn(len(cs))]
		if c.d.Kind == "type" {
			// a directive applied to one argument of a field (objects only: an interface's implementers would have to follow)
			for i := range c.d.Fields {
				f := &c.d.Fields[i]
				if strings.Contains(f.Args, "first: Int = 10") {
					f.Args = strings.Replace(f.Args, "first: Int = 10", fmt.Sprintf("first: Int = 10 @tag(name: %q)", "v"+c.s.Name), 1)
					return fmt.Sprintf("%s.%s at %s: directive applied to an argument", c.d.Name, f.Name, c.s.Name)
				}
				if strings.Contains(f.Args, "(filter: Filter") {
					f.Args = strings.Replace(f.Args, "(filter: Filter", fmt.Sprintf("(filter: Filter @tag(name: %q)", "v"+c.s.Name), 1)
					return fmt.Sprintf("%s.%s at %s: directive applied to an argument", c.d.Name, f.Name, c.s.Name)
				}
			}
			continue
		}
		if c.d.Kind == "interface" && len(c.d.Impl) > 0 && r.Intn(2) == 0 {
			c.d.Impl = nil
			return fmt.Sprintf("interface %s at %s: implements nothing", c.d.Name, c.s.Name)
		}
		if c.d.Dirs == "" {
			c.d.Dirs = fmt.Sprintf(" @tag(name: %q)", "v"+c.s.Name)
			return fmt.Sprintf("%s %s at %s: applied directive", c.d.Kind, c.d.Name, c.s.Name)
		}
		if r.Intn(2) == 0 {
			c.d.Dirs = ""
			return fmt.Sprintf("%s %s at %s: applied directive dropped", c.d.Kind, c.d.Name, c.s.Name)
		}
		c.d.Dirs = strings.Replace(c.d.Dirs, "\")", "2\")", 1)
		return fmt.Sprintf("%s %s at %s: applied directive with another argument", c.d.Kind, c.d.Name, c.s.Name)
	}
	return ""
}

// injectIncompat applies one single-point difference to one service's copy of a shared name
func injectIncompat(r *rand.Rand, mc *mergeCase, uni []*mDef) string {
	// candidates: (service index, def) whose name another service also declares
	type cand struct {
		s *mSvc
		d *mDef
	}
	var cs []cand
	for i, s := range mc.Services {
		for _, d := range s.Defs {
			for j, o := range mc.Services {
				if i != j && o.def(d.Name) != nil {
					cs = append(cs, cand{s, d})
					break
				}
			}
		}
	}
	if len(cs) == 0 {
		return ""
	}
	for try := 0; try < 20; try++ {
		c := cs[r.Intn(len(cs))]
		d := c.d
		other := func() *mDef {
			for _, o := range mc.Services {
				if o != c.s && o.def(d.Name) != nil {
					return o.def(d.Name)
				}
			}
			return nil
		}()
		common := func() []int { // indexes of fields both copies have
			var ix []int
			for i, f := range d.Fields {
				for _, g := range other.Fields {
					if f.Name == g.Name {
						ix = append(ix, i)
					}
				}
			}
			return ix
		}
		switch d.Kind {
		case "type", "interface", "input":
			ix := common()
			if d.Kind != "type" && r.Intn(3) == 0 {
				switch r.Intn(3) {
				case 0:
					d.Fields = append(d.Fields, mField{Name: "extra", Type: "String"})
					return fmt.Sprintf("%s %s at %s: extra field", d.Kind, d.Name, c.s.Name)
				case 1:
					if len(d.Fields) > 0 && d.Fields[len(d.Fields)-1].Name != "id" {
						d.Fields[len(d.Fields)-1].Name += "X"
						return fmt.Sprintf("%s %s at %s: renamed field (same count)", d.Kind, d.Name, c.s.Name)
					}
				}
			}
			if len(ix) == 0 {
				continue
			}
			f := &d.Fields[ix[r.Intn(len(ix))]]
			if f.Name == "id" && d.Kind != "input" {
				continue
			}
			switch r.Intn(8) {
			case 0:
				if strings.HasPrefix(f.Type, "String") {
					f.Type = strings.Replace(f.Type, "String", "Int", 1)
					if strings.Contains(f.Type, "=") {
						f.Type = "Int = 1"
					}
				} else {
					f.Type = "String"
				}
				return fmt.Sprintf("%s.%s at %s: field type", d.Name, f.Name, c.s.Name)
			case 1:
				t := strings.Split(f.Type, "=")[0]
				t = strings.TrimSpace(t)
				if strings.HasSuffix(t, "!") {
					f.Type = strings.TrimSuffix(t, "!")
				} else {
					f.Type = t + "!"
				}
				return fmt.Sprintf("%s.%s at %s: nullability", d.Name, f.Name, c.s.Name)
			case 2:
				if strings.Contains(f.Type, "[") {
					if strings.Contains(f.Type, "!]") {
						f.Type = strings.Replace(f.Type, "!]", "]", 1)
					} else {
						f.Type = strings.Replace(f.Type, "]", "!]", 1)
					}
					return fmt.Sprintf("%s.%s at %s: element nullability", d.Name, f.Name, c.s.Name)
				}
			case 3:
				if f.Args != "" {
					f.Args = strings.Replace(f.Args, "(", "(extra: Int, ", 1)
				} else if d.Kind != "input" {
					f.Args = "(extra: Int)"
				} else {
					continue
				}
				return fmt.Sprintf("%s.%s at %s: extra argument", d.Name, f.Name, c.s.Name)
			case 4:
				if strings.Contains(f.Args, "first: Int") {
					f.Args = strings.Replace(f.Args, "first: Int", "first: String", 1)
					f.Args = strings.Replace(f.Args, "= 10", "= \"10\"", 1)
					f.Args = strings.Replace(f.Args, "= 5", "= \"5\"", 1)
					return fmt.Sprintf("%s.%s at %s: argument type", d.Name, f.Name, c.s.Name)
				}
			case 5:
				switch {
				case strings.Contains(f.Args, "= 10"):
					f.Args = strings.Replace(f.Args, "= 10", "= 11", 1)
				case strings.Contains(f.Args, "= [\"a\"]"):
					f.Args = strings.Replace(f.Args, "= [\"a\"]", "= [\"b\"]", 1)
				case strings.Contains(f.Args, "= false"):
					f.Args = strings.Replace(f.Args, " = false", "", 1)
				case strings.Contains(f.Args, "filter: Filter"):
					f.Args = strings.Replace(f.Args, "filter: Filter", "filter: Filter = {limit: 1}", 1)
				case d.Kind == "input" && strings.Contains(f.Type, "= \"x\""):
					f.Type = "String = \"y\""
				case d.Kind == "input" && strings.Contains(f.Type, "= [USER]"):
					f.Type = "[Role!] = [ADMIN]"
				case d.Kind == "input" && f.Type == "Int":
					f.Type = "Int = 3"
				default:
					continue
				}
				return fmt.Sprintf("%s.%s at %s: default value", d.Name, f.Name, c.s.Name)
			case 6:
				if strings.Contains(f.Args, "first:") {
					f.Args = strings.Replace(f.Args, "first:", "limit:", 1)
					return fmt.Sprintf("%s.%s at %s: argument renamed (same count)", d.Name, f.Name, c.s.Name)
				}
			case 7:
				// different kind
				if d.Kind == "type" && d.Name != "Query" && d.Name != "Mutation" {
					kinds := []string{"scalar", "enum", "input", "union", "interface"}
					k := kinds[r.Intn(len(kinds))]
					nd := &mDef{Kind: k, Name: d.Name}
					switch k {
					case "enum":
						nd.Values = []string{"A", "B"}
					case "input":
						nd.Fields = []mField{{Name: "id", Type: "ID"}}
					case "union":
						continue
					case "interface":
						nd.Fields = []mField{{Name: "id", Type: "ID!"}}
					}
					if replaceDefKind(c.s, d, nd) {
						return fmt.Sprintf("%s at %s: kind %s instead of type", d.Name, c.s.Name, k)
					}
				}
			}
		case "enum":
			switch r.Intn(3) {
			case 0:
				d.Values = append(d.Values, "EXTRA")
				return fmt.Sprintf("enum %s at %s: extra value", d.Name, c.s.Name)
			case 1:
				d.Values[len(d.Values)-1] = "OTHER"
				return fmt.Sprintf("enum %s at %s: renamed value (same count)", d.Name, c.s.Name)
			default:
				if len(d.Values) > 1 {
					d.Values = d.Values[1:]
					return fmt.Sprintf("enum %s at %s: missing value", d.Name, c.s.Name)
				}
			}
		case "union":
			if r.Intn(2) == 0 {
				d.Values = d.Values[:1]
				return fmt.Sprintf("union %s at %s: fewer members", d.Name, c.s.Name)
			}
			// same count, different member
			if c.s.def("Extra") == nil {
				c.s.Defs = append(c.s.Defs, &mDef{Kind: "type", Name: "Extra", Fields: []mField{{Name: "x", Type: "String"}}})
			}
			d.Values[len(d.Values)-1] = "Extra"
			return fmt.Sprintf("union %s at %s: different member (same count)", d.Name, c.s.Name)
		case "scalar":
			if r.Intn(2) == 0 {
				nd := &mDef{Kind: "enum", Name: d.Name, Values: []string{"A"}}
				if replaceDefKind(c.s, d, nd) {
					return fmt.Sprintf("%s at %s: enum instead of scalar", d.Name, c.s.Name)
				}
			}
		case "directive":
			switch r.Intn(4) {
			case 0:
				d.Locs = append(d.Locs, "MUTATION")
				return fmt.Sprintf("directive %s at %s: extra executable location", d.Name, c.s.Name)
			case 1:
				if strings.Contains(d.DirArgs, "name: String") {
					d.DirArgs = strings.Replace(d.DirArgs, "name: String", "name: Int", 1)
					d.DirArgs = strings.Replace(d.DirArgs, "\"t\"", "1", 1)
					continue // applied @tag(name: "d") would no longer validate
				}
				d.DirArgs = "(role: String)"
				return fmt.Sprintf("directive %s at %s: argument type", d.Name, c.s.Name)
			case 2:
				if strings.Contains(d.DirArgs, "= \"t\"") {
					d.DirArgs = strings.Replace(d.DirArgs, "= \"t\"", "= \"u\"", 1)
					return fmt.Sprintf("directive %s at %s: argument default", d.Name, c.s.Name)
				}
			case 3:
				if d.DirArgs != "" {
					d.DirArgs = strings.Replace(d.DirArgs, ")", ", extra: Int)", 1)
					return fmt.Sprintf("directive %s at %s: extra argument", d.Name, c.s.Name)
				}
			}
		}
	}
	return ""
}

// replaceDefKind swaps a definition for one of another kind when nothing in the service depends
// on the old kind (so that the service schema stays valid)
func replaceDefKind(s *mSvc, old, nd *mDef) bool {
	for _, d := range s.Defs {
		if d == old {
			continue
		}
		for _, f := range d.Fields {
			if baseName(f.Type) == old.Name {
				// an output field may return scalar/enum/interface, an input kind may not be returned
				if nd.Kind == "input" {
					return false
				}
				if d.Kind == "input" && nd.Kind != "scalar" && nd.Kind != "enum" {
					return false
				}
			}
			if strings.Contains(f.Args, old.Name) {
				return false
			}
		}
		for _, m := range d.Values {
			if d.Kind == "union" && m == old.Name {
				return false
			}
		}
		for _, i := range d.Impl {
			if i == old.Name {
				return false
			}
		}
	}
	for i, d := range s.Defs {
		if d == old {
			s.Defs[i] = nd
		}
	}
	return true
}

package main

// C08: planning is total.  MinQueriesPlanner.Plan / Gateway.GetPlans under a watchdog on
//  (a) documents with 0..300 cross-service branch points inside one step (the step tree is known by
//      construction and is what the work-list model Gw/PlanLTS.v is run on),
//  (b) generated federations and valid documents (several operations, fragments to any nesting),
//  (c) invalid documents: truncated, unknown fields, random bytes, empty,
//  (d) planning contexts whose routing table lacks entries the document needs, so that one or
//      several steps fail to build after validation has passed,
// with the number of goroutines before and after every run.

import (
	"encoding/json"
	"fmt"
	"math/rand"
	"runtime"
	"strings"
	"time"

	"github.com/nautilus/gateway"
	"github.com/nautilus/graphql"
	"github.com/vektah/gqlparser/v2"
	"github.com/vektah/gqlparser/v2/ast"
)

func init() { props["C08"] = runC08 }

const c08Header = `From Coq Require Import String List ZArith Bool.
Import ListNotations.
From GW Require Import Base.Res Gw.PlanLTS.
Local Open Scope string_scope.
Local Open Scope bool_scope.
`

type c08Case struct {
	Kind     string    `json:"kind"`
	Branches int       `json:"branch_points,omitempty"`
	Depth    int       `json:"depth,omitempty"`
	Fed      *FedSpec  `json:"federation,omitempty"`
	Salt     uint32    `json:"salt,omitempty"`
	Query    string    `json:"query"`
	Missing  []string  `json:"missing_locations,omitempty"`
	Valid    bool      `json:"valid"`
	GenQ     *GenQuery `json:"-"`
}

type c08Obs struct {
	Class      int    `json:"class"` // 0 plan, 1 error, 3 panic, 4 hang
	Note       string `json:"note,omitempty"`
	Steps      int    `json:"steps"`
	Millis     int64  `json:"millis"`
	GoBefore   int    `json:"goroutines_before"`
	GoAfter    int    `json:"goroutines_after"`
	Operations int    `json:"plans"`
}

func countSteps(s *gateway.QueryPlanStep) int {
	if s == nil {
		return 0
	}
	n := 1
	for _, t := range s.Then {
		n += countSteps(t)
	}
	return n
}

func settleGoroutines(target int) int {
	n := runtime.NumGoroutine()
	for i := 0; i < 40 && n > target; i++ {
		time.Sleep(5 * time.Millisecond)
		n = runtime.NumGoroutine()
	}
	return n
}

func c08Run(plan func() (gateway.QueryPlanList, error)) c08Obs {
	o := c08Obs{GoBefore: runtime.NumGoroutine()}
	type res struct {
		p   gateway.QueryPlanList
		err error
		pan interface{}
	}
	ch := make(chan res, 1)
	t0 := time.Now()
	go func() {
		defer func() {
			if r := recover(); r != nil {
				ch <- res{pan: r}
			}
		}()
		p, err := plan()
		ch <- res{p: p, err: err}
	}()
	select {
	case r := <-ch:
		o.Millis = time.Since(t0).Milliseconds()
		switch {
		case r.pan != nil:
			o.Class, o.Note = 3, fmt.Sprint(r.pan)
		case r.err != nil:
			o.Class, o.Note = 1, r.err.Error()
		default:
			o.Operations = len(r.p)
			for _, p := range r.p {
				o.Steps += countSteps(p.RootStep)
			}
		}
	case <-time.After(5 * time.Second):
		o.Class, o.Note = 4, "planning did not return within 5s"
		o.Millis = 5000
	}
	o.GoAfter = settleGoroutines(o.GoBefore)
	return o
}

// two services: A owns users and their names, B owns the photos of the same users
func branchGateway() (*gateway.Gateway, error) {
	a, err := graphql.LoadSchema(`type Query { users: [User!]! me: User } type User { id: ID! name: String! friend: User }`)
	if err != nil {
		return nil, err
	}
	b, err := graphql.LoadSchema(`type Query { ping: String } type User { id: ID! photo: String! album: Album } type Album { id: ID! title: String }`)
	if err != nil {
		return nil, err
	}
	return gateway.New([]*graphql.RemoteSchema{{Schema: a, URL: "a"}, {Schema: b, URL: "b"}}, gateway.WithLogger(quietLogger{}))
}

// abstract types: unions (which have no fields of their own, only __typename) and an interface,
// their members split over two services
func abstractGateway() (*gateway.Gateway, error) {
	a, err := graphql.LoadSchema(`type Query { pets: [Pet] search(term: String): [Result!]! named: [Named] node(id: ID!): Node }
union Pet = Cat | Dog
union Result = Cat | Owner
interface Node { id: ID! }
interface Named { name: String }
type Cat implements Node & Named { id: ID! name: String owner: Owner }
type Dog implements Node & Named { id: ID! name: String }
type Owner implements Node & Named { id: ID! name: String }`)
	if err != nil {
		return nil, err
	}
	b, err := graphql.LoadSchema(`type Query { ping: String node(id: ID!): Node }
interface Node { id: ID! }
type Cat implements Node { id: ID! lives: Int }
type Owner implements Node { id: ID! email: String }`)
	if err != nil {
		return nil, err
	}
	return gateway.New([]*graphql.RemoteSchema{{Schema: a, URL: "a"}, {Schema: b, URL: "b"}}, gateway.WithLogger(quietLogger{}))
}

var abstractQueries = []string{
	`{ pets { __typename } }`,
	`{ pets { kind: __typename ... on Cat { name lives } ... on Dog { name } } }`,
	`{ search(term: "x") { __typename ... on Owner { email } } }`,
	`{ pets { ... on Cat { __typename owner { __typename email } } } }`,
	`query Q($t: String) { search(term: $t) { ...R } } fragment R on Result { __typename ... on Cat { lives } }`,
	`{ named { __typename name ... on Cat { lives } ... on Owner { email } } }`,
	`{ named { ...N } pets { ...P } } fragment N on Named { __typename name } fragment P on Pet { __typename ... on Named { name } }`,
}

// k aliased selections of users, each crossing to the other service, nested depth levels deep
func branchQuery(k, depth int) (string, string) {
	var q strings.Builder
	q.WriteString("{ me { name }")
	inner := "name photo"
	tree := "PNode false []" // the photo step of one branch
	for d := 0; d < depth; d++ {
		inner = "name friend { " + inner + " }"
	}
	for i := 0; i < k; i++ {
		fmt.Fprintf(&q, " u%d: users { %s }", i, inner)
	}
	q.WriteString(" }")
	// the step tree: the empty root step adds the step for service a, which adds one step per branch
	kids := make([]string, k)
	for i := range kids {
		kids[i] = tree
	}
	return q.String(), "PNode false [PNode false [" + strings.Join(kids, "; ") + "]]"
}

func runC08(cfg *runCfg) error {
	n := cfg.N
	if n == 0 {
		n = 90
		if cfg.Tier == "thorough" {
			n = 1500
		}
	}
	r := rand.New(rand.NewSource(cfg.Seed))
	sh := NewSharder(cfg.Out, "cases_C08", c08Header, 150_000)
	doc := &CasesDoc{Property: "C08", Seed: cfg.Seed, Tier: cfg.Tier, Dist: map[string]int{}}
	id := 0
	emit := func(cs *c08Case, o c08Obs, model string, expectSteps int) {
		c := sh.File()
		c.Printf("Eval vm_compute in (\"%d\"%%string, %s, c08_holds %s %d %d %d %d %d, @nil nat).\n", id, model,
			coqBool(cs.Valid), expectSteps, o.Class, o.Steps, o.GoBefore, o.GoAfter)
		key, _ := json.Marshal(cs)
		doc.Dist[fmt.Sprintf("%s:class:%d", cs.Kind, o.Class)]++
		doc.Cases = append(doc.Cases, CaseInfo{ID: id, Kind: cs.Kind, Input: cs, Observed: o,
			Nontrivial: cs.Branches >= 10 || cs.Kind != "branch-points", Key: string(key)})
		id++
	}
	if cfg.Replay != "" {
		var rp struct {
			Case struct {
				Input c08Case `json:"input"`
			} `json:"case"`
		}
		if err := readJSON(cfg.Replay, &rp); err != nil {
			return err
		}
		cs := &rp.Case.Input
		gw, err := branchGateway()
		if err != nil {
			return err
		}
		if cs.Kind == "abstract-types" {
			if gw, err = abstractGateway(); err != nil {
				return err
			}
		}
		if cs.Fed != nil {
			st := genStore(rand.New(rand.NewSource(int64(cs.Salt))), cs.Fed, false)
			fed, ferr := NewFed(cs.Fed, st, rand.New(rand.NewSource(int64(cs.Salt))))
			if ferr != nil {
				return ferr
			}
			gw = fed.GW
		}
		o := c08Run(func() (gateway.QueryPlanList, error) { return gw.GetPlans(&gateway.RequestContext{Query: cs.Query}) })
		emit(cs, o, "true", 0)
		if err := sh.Flush(); err != nil {
			return err
		}
		doc.Shards = sh.Files
		return doc.Write(cfg.Out)
	}

	// (a) branch points
	gw, err := branchGateway()
	if err != nil {
		return err
	}
	ks := []int{0, 1, 2, 7, 49, 50, 51, 52, 64, 100, 150, 300}
	if cfg.Tier == "thorough" {
		for k := 3; k < 400; k += 11 {
			ks = append(ks, k)
		}
	}
	for _, k := range ks {
		for _, depth := range []int{0, 2} {
			q, tree := branchQuery(k, depth)
			cs := &c08Case{Kind: "branch-points", Branches: k, Depth: depth, Query: q, Valid: true}
			o := c08Run(func() (gateway.QueryPlanList, error) { return gw.GetPlans(&gateway.RequestContext{Query: q}) })
			expect := k + 2
			if k == 0 {
				expect = 2
			}
			if len(q) > 400 {
				cs.Query = q[:200] + " … " + q[len(q)-100:]
			}
			model := fmt.Sprintf("plan_outcome_agrees (%s) %s %d", tree, coqBool(o.Class == 0), o.Steps)
			emit(cs, o, model, expect)
		}
	}
	// (a') unions and interfaces whose members live at two services
	agw, err := abstractGateway()
	if err != nil {
		return fmt.Errorf("the federation with abstract types does not build: %v", err)
	}
	for _, q := range abstractQueries {
		q := q
		cs := &c08Case{Kind: "abstract-types", Query: q, Valid: true}
		o := c08Run(func() (gateway.QueryPlanList, error) { return agw.GetPlans(&gateway.RequestContext{Query: q}) })
		emit(cs, o, "true", 0)
	}
	// (b)-(d) generated federations
	for i := 0; i < n; i++ {
		g := &fedGen{r: r, MultiHomePct: []int{0, 20, 45}[r.Intn(3)], Iface: r.Intn(2) == 0}
		spec := g.Spec()
		salt := r.Uint32()
		st := genStore(rand.New(rand.NewSource(int64(salt))), spec, false)
		fed, ferr := NewFed(spec, st, rand.New(rand.NewSource(int64(salt))))
		if ferr != nil {
			return fmt.Errorf("federation %d does not build: %v", i, ferr)
		}
		k := fedKnobs(r, "C08")
		k.MultiOp = 1 + r.Intn(3)
		q := genQuery(r, spec, st, k)
		parsedDoc, verr := gqlparser.LoadQuery(fed.Cap.Schema, q.Text)
		if verr != nil {
			doc.Dist["generator:invalid-query"]++
			continue
		}
		// (b) valid
		cs := &c08Case{Kind: "valid", Fed: spec, Salt: salt, Query: q.Text, Valid: true}
		o := c08Run(func() (gateway.QueryPlanList, error) { return fed.GW.GetPlans(&gateway.RequestContext{Query: q.Text}) })
		emit(cs, o, "true", 0)
		// more valid documents on the same federation, heavy on fragments inside fragments
		for extra := 0; extra < 5; extra++ {
			kf := fedKnobs(r, "C08")
			kf.NamedFrags, kf.InlineFrags, kf.NoNestedFrag, kf.Untyped = true, true, false, true
			kf.Depth = 2 + r.Intn(2)
			kf.AliasID, kf.VarNamedID = false, false
			qf := genQuery(r, spec, st, kf)
			if _, ferr2 := gqlparser.LoadQuery(fed.Cap.Schema, qf.Text); ferr2 != nil {
				doc.Dist["generator:invalid-query"]++
				continue
			}
			csf := &c08Case{Kind: "valid", Fed: spec, Salt: salt, Query: qf.Text, Valid: true}
			of := c08Run(func() (gateway.QueryPlanList, error) { return fed.GW.GetPlans(&gateway.RequestContext{Query: qf.Text}) })
			emit(csf, of, "true", 0)
		}
		// (c) invalid
		bad := q.Text
		switch r.Intn(5) {
		case 0:
			bad = bad[:r.Intn(len(bad))]
		case 1:
			bad = strings.Replace(bad, "{", "{ nosuchfield ", 1)
		case 2:
			b := make([]byte, 1+r.Intn(60))
			r.Read(b)
			bad = string(b)
		case 3:
			bad = ""
		case 4:
			bad = strings.Repeat("{ a ", 200)
		}
		if _, berr := gqlparser.LoadQuery(fed.Cap.Schema, bad); berr != nil || bad == "" {
			cs := &c08Case{Kind: "invalid", Fed: spec, Salt: salt, Query: bad, Valid: false}
			o := c08Run(func() (gateway.QueryPlanList, error) { return fed.GW.GetPlans(&gateway.RequestContext{Query: bad}) })
			emit(cs, o, "true", 0)
		}
		// (d) a routing table without some of the entries the document needs
		used := map[string]bool{}
		var walk func(ss ast.SelectionSet)
		walk = func(ss ast.SelectionSet) {
			for _, s := range ss {
				switch x := s.(type) {
				case *ast.Field:
					if x.ObjectDefinition != nil && x.Name != "id" && x.Name != "__typename" {
						used[x.ObjectDefinition.Name+"."+x.Name] = true
					}
					walk(x.SelectionSet)
				case *ast.InlineFragment:
					walk(x.SelectionSet)
				}
			}
		}
		for _, op := range parsedDoc.Operations {
			walk(op.SelectionSet)
		}
		for _, f := range parsedDoc.Fragments {
			walk(f.SelectionSet)
		}
		keys := []string{}
		for key := range used {
			if _, ok := fed.Cap.Locs[key]; ok {
				keys = append(keys, key)
			}
		}
		sortStrings(keys)
		if len(keys) > 0 {
			pruned := gateway.FieldURLMap{}
			for key, v := range fed.Cap.Locs {
				pruned[key] = v
			}
			missing := []string{}
			for j, m := 0, 1+r.Intn(4); j < m; j++ {
				key := keys[r.Intn(len(keys))]
				delete(pruned, key)
				missing = append(missing, key)
			}
			cs := &c08Case{Kind: "missing-locations", Fed: spec, Salt: salt, Query: q.Text, Missing: missing, Valid: false}
			o := c08Run(func() (gateway.QueryPlanList, error) {
				return (&gateway.MinQueriesPlanner{}).Plan(&gateway.PlanningContext{Query: q.Text, Schema: fed.Cap.Schema, Gateway: fed.GW, Locations: pruned})
			})
			emit(cs, o, "true", 0)
		}
	}
	if err := sh.Flush(); err != nil {
		return err
	}
	doc.Shards = sh.Files
	return doc.Write(cfg.Out)
}

package main

// Federation generator: a merged type system partitioned over services that follow the
// gateway's conventions (every object type implements Node with id, every service that
// declares a type can resolve it through node(id)), a shared data graph, and in-process
// services that really execute the sub-queries they receive.

import (
	"fmt"
	"math/rand"
	"sort"
	"strings"
)

type TypeRef struct {
	Named   string `json:"named"`
	List    bool   `json:"list,omitempty"`
	NonNull bool   `json:"nonnull,omitempty"`
	ElemNN  bool   `json:"elem_nonnull,omitempty"`
}

func (t TypeRef) String() string {
	s := t.Named
	if t.List {
		if t.ElemNN {
			s += "!"
		}
		s = "[" + s + "]"
	}
	if t.NonNull {
		s += "!"
	}
	return s
}

type ArgSpec struct {
	Name string `json:"name"`
	Type string `json:"type"`
}

type FieldSpec struct {
	Name   string    `json:"name"`
	Type   TypeRef   `json:"type"`
	Args   []ArgSpec `json:"args,omitempty"`
	Owners []string  `json:"owners"`
}

type TypeSpec struct {
	Name   string       `json:"name"`
	Kind   string       `json:"kind"` // OBJECT | INTERFACE | ROOT
	Ifaces []string     `json:"ifaces,omitempty"`
	Fields []*FieldSpec `json:"fields"`
	// services declaring the type beyond the owners of its fields (stubs for references)
	Extra []string `json:"extra,omitempty"`
}

type FedSpec struct {
	Services   []string    `json:"services"`
	Types      []*TypeSpec `json:"types"`
	Priorities []string    `json:"priorities"` // nil = not configured
	HasPrio    bool        `json:"has_priorities"`
}

func (f *FedSpec) Type(name string) *TypeSpec {
	for _, t := range f.Types {
		if t.Name == name {
			return t
		}
	}
	return nil
}

func (t *TypeSpec) Field(name string) *FieldSpec {
	for _, f := range t.Fields {
		if f.Name == name {
			return f
		}
	}
	return nil
}

func contains(l []string, s string) bool {
	for _, x := range l {
		if x == s {
			return true
		}
	}
	return false
}

// declaredAt: the services whose schema contains type t
func (f *FedSpec) declaredAt(t *TypeSpec) []string {
	set := map[string]bool{}
	for _, fl := range t.Fields {
		for _, o := range fl.Owners {
			set[o] = true
		}
	}
	for _, e := range t.Extra {
		set[e] = true
	}
	var out []string
	for _, s := range f.Services {
		if set[s] {
			out = append(out, s)
		}
	}
	return out
}

var scalarNames = map[string]bool{"String": true, "Int": true, "Boolean": true, "ID": true, "Float": true}

// close the declaration sets: a service that declares a field of object/interface type T must declare T
func (f *FedSpec) closeRefs() {
	for changed := true; changed; {
		changed = false
		for _, t := range f.Types {
			for _, fl := range t.Fields {
				if scalarNames[fl.Type.Named] {
					continue
				}
				target := f.Type(fl.Type.Named)
				if target == nil {
					continue
				}
				at := f.declaredAt(target)
				for _, o := range fl.Owners {
					if !contains(at, o) {
						target.Extra = append(target.Extra, o)
						at = append(at, o)
						changed = true
					}
				}
				// a service that returns values of an interface knows every type that implements it
				if target.Kind == "INTERFACE" {
					for _, impl := range f.Types {
						if impl.Kind == "OBJECT" && contains(impl.Ifaces, target.Name) {
							iat := f.declaredAt(impl)
							for _, o := range fl.Owners {
								if !contains(iat, o) {
									impl.Extra = append(impl.Extra, o)
									iat = append(iat, o)
									changed = true
								}
							}
						}
					}
				}
			}
			// a service that declares an interface can resolve every object behind it: it declares all implementers
			if t.Kind == "INTERFACE" {
				for _, impl := range f.Types {
					if impl.Kind == "OBJECT" && contains(impl.Ifaces, t.Name) {
						iat := f.declaredAt(impl)
						for _, s := range f.declaredAt(t) {
							if !contains(iat, s) {
								impl.Extra = append(impl.Extra, s)
								iat = append(iat, s)
								changed = true
							}
						}
					}
				}
			}
			// an interface is declared wherever one of its implementers is
			if t.Kind == "OBJECT" {
				for _, in := range t.Ifaces {
					if in == "Node" {
						continue
					}
					it := f.Type(in)
					at := f.declaredAt(it)
					for _, s := range f.declaredAt(t) {
						if !contains(at, s) {
							it.Extra = append(it.Extra, s)
							at = append(at, s)
							changed = true
						}
					}
				}
			}
		}
	}
}

// SDL of one service
func (f *FedSpec) SDL(svc string) string {
	var b strings.Builder
	hasNode := false
	for _, t := range f.Types {
		if t.Kind == "ROOT" {
			continue
		}
		if !contains(f.declaredAt(t), svc) {
			continue
		}
		hasNode = true
		kw := "type"
		impl := ""
		if t.Kind == "INTERFACE" {
			kw = "interface"
		} else {
			ifs := []string{}
			for _, in := range t.Ifaces {
				if in == "Node" || contains(f.declaredAt(f.Type(in)), svc) {
					ifs = append(ifs, in)
				}
			}
			if len(ifs) > 0 {
				impl = " implements " + strings.Join(ifs, " & ")
			}
		}
		fmt.Fprintf(&b, "%s %s%s {\n  id: ID!\n", kw, t.Name, impl)
		for _, fl := range t.Fields {
			if fl.Name == "id" || !contains(fl.Owners, svc) {
				continue
			}
			fmt.Fprintf(&b, "  %s%s: %s\n", fl.Name, argsSDL(fl.Args), fl.Type)
		}
		b.WriteString("}\n")
	}
	for _, t := range f.Types {
		if t.Kind != "ROOT" {
			continue
		}
		lines := []string{}
		for _, fl := range t.Fields {
			if contains(fl.Owners, svc) {
				lines = append(lines, fmt.Sprintf("  %s%s: %s\n", fl.Name, argsSDL(fl.Args), fl.Type))
			}
		}
		if t.Name == "Query" && hasNode {
			lines = append(lines, "  node(id: ID!): Node\n")
		}
		if len(lines) == 0 && t.Name == "Query" {
			lines = append(lines, "  _empty: String\n")
		}
		if len(lines) > 0 {
			fmt.Fprintf(&b, "type %s {\n%s}\n", t.Name, strings.Join(lines, ""))
		}
	}
	if hasNode {
		b.WriteString("interface Node {\n  id: ID!\n}\n")
	}
	return b.String()
}

func argsSDL(args []ArgSpec) string {
	if len(args) == 0 {
		return ""
	}
	parts := []string{}
	for _, a := range args {
		parts = append(parts, a.Name+": "+a.Type)
	}
	return "(" + strings.Join(parts, ", ") + ")"
}

// ---------------------------------------------------------------------------------------------

type fedGen struct {
	r *rand.Rand
	// knobs
	MultiHomePct int  // share of fields offered by a second service
	Iface        bool // allow a second interface
}

func (g *fedGen) pickOwners(svcs []string) []string {
	o := []string{svcs[g.r.Intn(len(svcs))]}
	if len(svcs) > 1 && g.r.Intn(100) < g.MultiHomePct {
		for _, s := range g.r.Perm(len(svcs)) {
			if svcs[s] != o[0] {
				o = append(o, svcs[s])
				if g.r.Intn(3) > 0 {
					break
				}
			}
		}
	}
	// keep service order stable: the routing table lists services in source order
	sort.Slice(o, func(i, j int) bool { return indexOf(svcs, o[i]) < indexOf(svcs, o[j]) })
	return o
}

func indexOf(l []string, s string) int {
	for i, x := range l {
		if x == s {
			return i
		}
	}
	return -1
}

func (g *fedGen) Spec() *FedSpec {
	nsvc := 1 + g.r.Intn(4)
	f := &FedSpec{}
	for i := 0; i < nsvc; i++ {
		f.Services = append(f.Services, string(rune('A'+i)))
	}
	ntypes := 2 + g.r.Intn(3)
	names := []string{"User", "Photo", "Album", "Tag"}[:ntypes]
	var iface *TypeSpec
	if g.Iface && g.r.Intn(100) < 40 {
		iface = &TypeSpec{Name: "Named", Kind: "INTERFACE", Fields: []*FieldSpec{{Name: "title", Type: TypeRef{Named: "String"}}}}
	}
	for _, n := range names {
		t := &TypeSpec{Name: n, Kind: "OBJECT", Ifaces: []string{"Node"}}
		if iface != nil && (g.r.Intn(2) == 0 || n == names[0]) {
			t.Ifaces = append(t.Ifaces, "Named")
			// the interface field, owned together with the interface declaration
			t.Fields = append(t.Fields, &FieldSpec{Name: "title", Type: TypeRef{Named: "String"}})
		}
		f.Types = append(f.Types, t)
	}
	if iface != nil {
		f.Types = append(f.Types, iface)
	}
	scalars := []string{"String", "Int", "Boolean"}
	for ti, t := range f.Types {
		if t.Kind != "OBJECT" {
			continue
		}
		nf := 2 + g.r.Intn(4)
		for i := 0; i < nf; i++ {
			fl := &FieldSpec{Name: fmt.Sprintf("%s%d", strings.ToLower(t.Name[:1]), i)}
			switch p := g.r.Intn(100); {
			case p < 40:
				fl.Type = TypeRef{Named: scalars[g.r.Intn(3)]}
			case p < 50:
				fl.Type = TypeRef{Named: "String"}
				fl.Args = []ArgSpec{{Name: "x", Type: "String"}}
			case p < 72:
				fl.Type = TypeRef{Named: names[g.r.Intn(ntypes)]}
			case p < 80 && iface != nil:
				fl.Type = TypeRef{Named: "Named", List: g.r.Intn(2) == 0}
			default:
				fl.Type = TypeRef{Named: names[g.r.Intn(ntypes)], List: true, ElemNN: g.r.Intn(4) == 0, NonNull: g.r.Intn(5) == 0}
			}
			fl.Owners = g.pickOwners(f.Services)
			t.Fields = append(t.Fields, fl)
		}
		_ = ti
	}
	// the interface field is offered wherever the type's title is
	for _, t := range f.Types {
		if t.Kind == "OBJECT" {
			if tf := t.Field("title"); tf != nil {
				tf.Owners = g.pickOwners(f.Services)
			}
		}
	}
	if iface != nil {
		set := map[string]bool{}
		for _, t := range f.Types {
			if t.Kind == "OBJECT" && contains(t.Ifaces, "Named") {
				for _, o := range t.Field("title").Owners {
					set[o] = true
				}
			}
		}
		for _, s := range f.Services {
			if set[s] {
				iface.Fields[0].Owners = append(iface.Fields[0].Owners, s)
			}
		}
		if len(iface.Fields[0].Owners) == 0 {
			iface.Fields[0].Owners = []string{f.Services[0]}
		}
	}
	q := &TypeSpec{Name: "Query", Kind: "ROOT"}
	nq := 2 + g.r.Intn(3)
	for i := 0; i < nq; i++ {
		n := names[g.r.Intn(ntypes)]
		fl := &FieldSpec{Name: fmt.Sprintf("q%d", i), Owners: g.pickOwners(f.Services)}
		switch g.r.Intn(3) {
		case 0:
			fl.Type = TypeRef{Named: n}
		case 1:
			fl.Type = TypeRef{Named: n, List: true}
		default:
			fl.Type = TypeRef{Named: n, List: true, ElemNN: true, NonNull: true}
		}
		q.Fields = append(q.Fields, fl)
	}
	if iface != nil && g.r.Intn(2) == 0 {
		q.Fields = append(q.Fields, &FieldSpec{Name: "named", Type: TypeRef{Named: "Named", List: true}, Owners: []string{iface.Fields[0].Owners[0]}})
	}
	q.Fields = append(q.Fields, &FieldSpec{Name: "hello", Type: TypeRef{Named: "String"}, Args: []ArgSpec{{Name: "x", Type: "String"}}, Owners: g.pickOwners(f.Services)})
	f.Types = append(f.Types, q)
	if g.r.Intn(100) < 35 {
		m := &TypeSpec{Name: "Mutation", Kind: "ROOT"}
		owner := []string{f.Services[g.r.Intn(nsvc)]}
		m.Fields = append(m.Fields, &FieldSpec{Name: "touch", Type: TypeRef{Named: names[g.r.Intn(ntypes)]}, Args: []ArgSpec{{Name: "x", Type: "String"}}, Owners: owner})
		if g.r.Intn(2) == 0 {
			m.Fields = append(m.Fields, &FieldSpec{Name: "bump", Type: TypeRef{Named: "Int"}, Owners: owner})
		}
		f.Types = append(f.Types, m)
	}
	// types that own no field anywhere are declared at the first service
	for _, t := range f.Types {
		if t.Kind != "ROOT" && len(f.declaredAt(t)) == 0 {
			t.Extra = append(t.Extra, f.Services[0])
		}
	}
	// an implementer's interface field must be declared where the interface is used with it: keep it simple,
	// every service that declares an implementer also declares the interface (closeRefs)
	f.closeRefs()
	// every service that declares an implementer of Named must offer title on it (interface conformance)
	if iface != nil {
		for _, t := range f.Types {
			if t.Kind == "OBJECT" && contains(t.Ifaces, "Named") {
				tf := t.Field("title")
				for _, s := range f.declaredAt(t) {
					if !contains(tf.Owners, s) {
						tf.Owners = append(tf.Owners, s)
					}
				}
				sort.Slice(tf.Owners, func(i, j int) bool { return indexOf(f.Services, tf.Owners[i]) < indexOf(f.Services, tf.Owners[j]) })
			}
		}
		sort.Slice(iface.Fields[0].Owners, func(i, j int) bool {
			return indexOf(f.Services, iface.Fields[0].Owners[i]) < indexOf(f.Services, iface.Fields[0].Owners[j])
		})
		f.closeRefs()
		// the interface's own field is offered by every service declaring the interface
		iface.Fields[0].Owners = f.declaredAt(iface)
	}
	// priorities
	switch p := g.r.Intn(100); {
	case p < 45:
	case p < 60:
		f.HasPrio = true
		f.Priorities = []string{f.Services[g.r.Intn(nsvc)]}
	case p < 75:
		f.HasPrio = true
		for _, i := range g.r.Perm(nsvc) {
			f.Priorities = append(f.Priorities, f.Services[i])
		}
	case p < 88:
		f.HasPrio = true
		f.Priorities = []string{"nosuch", f.Services[g.r.Intn(nsvc)]}
	default:
		f.HasPrio = true
		f.Priorities = []string{}
	}
	return f
}

package main

// Printers from gqlparser schemas to the Gallina records of GW.Gql.Schema / GW.Gw.Merge.

import (
	"fmt"
	"sort"
	"strings"

	"github.com/nautilus/gateway"
	"github.com/vektah/gqlparser/v2/ast"
)

func (c *CoqFile) Ty(t *ast.Type) string {
	if t == nil {
		return "None"
	}
	return "(Some " + c.ty(t) + ")"
}

func (c *CoqFile) ty(t *ast.Type) string {
	if t.Elem != nil {
		return "(TList " + c.ty(t.Elem) + " " + coqBool(t.NonNull) + ")"
	}
	return "(TNamed " + c.S(t.NamedType) + " " + coqBool(t.NonNull) + ")"
}

func (c *CoqFile) GVal(v *ast.Value) string {
	if v == nil {
		return "None"
	}
	return fmt.Sprintf("(Some {| gv_kind := %d; gv_str := %s |})", int(v.Kind), c.S(v.String()))
}

func (c *CoqFile) DirApps(ds ast.DirectiveList) string {
	parts := []string{}
	for _, d := range ds {
		args := []string{}
		for _, a := range d.Arguments {
			args = append(args, "("+c.S(a.Name)+", "+c.GVal(a.Value)+")")
		}
		parts = append(parts, "{| da_name := "+c.S(d.Name)+"; da_args := ["+strings.Join(args, "; ")+"] |}")
	}
	return "[" + strings.Join(parts, "; ") + "]"
}

func (c *CoqFile) ArgDefs(as ast.ArgumentDefinitionList) string {
	parts := []string{}
	for _, a := range as {
		parts = append(parts, fmt.Sprintf("{| ad_name := %s; ad_desc := %s; ad_type := %s; ad_default := %s; ad_dirs := %s |}",
			c.S(a.Name), c.S(a.Description), c.Ty(a.Type), c.GVal(a.DefaultValue), c.DirApps(a.Directives)))
	}
	return "[" + strings.Join(parts, "; ") + "]"
}

func (c *CoqFile) FieldDefs(fs ast.FieldList) string {
	parts := []string{}
	for _, f := range fs {
		parts = append(parts, fmt.Sprintf("{| fd_name := %s; fd_desc := %s; fd_type := %s; fd_args := %s; fd_default := %s; fd_dirs := %s |}",
			c.S(f.Name), c.S(f.Description), c.Ty(f.Type), c.ArgDefs(f.Arguments), c.GVal(f.DefaultValue), c.DirApps(f.Directives)))
	}
	return "[" + strings.Join(parts, "; ") + "]"
}

func coqKind(k ast.DefinitionKind) string {
	switch k {
	case ast.Scalar:
		return "KScalar"
	case ast.Object:
		return "KObject"
	case ast.Interface:
		return "KInterface"
	case ast.Union:
		return "KUnion"
	case ast.Enum:
		return "KEnum"
	case ast.InputObject:
		return "KInputObject"
	}
	return "KScalar"
}

func (c *CoqFile) Definition(d *ast.Definition) string {
	evs := []string{}
	for _, v := range d.EnumValues {
		evs = append(evs, fmt.Sprintf("{| ev_name := %s; ev_desc := %s; ev_dirs := %s |}", c.S(v.Name), c.S(v.Description), c.DirApps(v.Directives)))
	}
	return c.Intern("df", "definition", fmt.Sprintf("{| df_kind := %s; df_name := %s; df_desc := %s; df_fields := %s; df_ifaces := %s; df_members := %s; df_enums := [%s]; df_dirs := %s |}",
		coqKind(d.Kind), c.S(d.Name), c.S(d.Description), c.FieldDefs(d.Fields), c.Strs(d.Interfaces), c.Strs(d.Types), strings.Join(evs, "; "), c.DirApps(d.Directives)))
}

func (c *CoqFile) DirDef(d *ast.DirectiveDefinition) string {
	locs := []string{}
	for _, l := range d.Locations {
		locs = append(locs, string(l))
	}
	builtin := d.Position != nil && d.Position.Src != nil && d.Position.Src.BuiltIn
	return c.Intern("dd", "dirdef", fmt.Sprintf("{| dd_name := %s; dd_desc := %s; dd_locs := %s; dd_args := %s; dd_builtin := %s; dd_repeatable := %s |}",
		c.S(d.Name), c.S(d.Description), c.Strs(locs), c.ArgDefs(d.Arguments), coqBool(builtin), coqBool(d.IsRepeatable)))
}

// Schema prints Types and Directives sorted by name
func (c *CoqFile) Schema(s *ast.Schema) string {
	names := make([]string, 0, len(s.Types))
	for n := range s.Types {
		names = append(names, n)
	}
	sort.Strings(names)
	defs := []string{}
	for _, n := range names {
		defs = append(defs, c.Definition(s.Types[n]))
	}
	dnames := make([]string, 0, len(s.Directives))
	for n := range s.Directives {
		dnames = append(dnames, n)
	}
	sort.Strings(dnames)
	dirs := []string{}
	for _, n := range dnames {
		dirs = append(dirs, c.DirDef(s.Directives[n]))
	}
	return "{| s_types := [" + strings.Join(defs, ";\n  ") + "]; s_dirs := [" + strings.Join(dirs, ";\n  ") + "] |}"
}

// Merged prints the merged schema as observed: types and directives by name, possible types and
// implements as name lists
func (c *CoqFile) Merged(s *ast.Schema) string {
	names := make([]string, 0, len(s.Types))
	for n := range s.Types {
		names = append(names, n)
	}
	sort.Strings(names)
	defs := []string{}
	for _, n := range names {
		defs = append(defs, c.Definition(s.Types[n]))
	}
	dnames := make([]string, 0, len(s.Directives))
	for n := range s.Directives {
		dnames = append(dnames, n)
	}
	sort.Strings(dnames)
	dirs := []string{}
	for _, n := range dnames {
		dirs = append(dirs, c.DirDef(s.Directives[n]))
	}
	nameLists := func(m map[string][]*ast.Definition) string {
		keys := make([]string, 0, len(m))
		for k := range m {
			keys = append(keys, k)
		}
		sort.Strings(keys)
		parts := []string{}
		for _, k := range keys {
			ns := []string{}
			for _, d := range m[k] {
				if d == nil {
					ns = append(ns, "<nil>")
				} else {
					ns = append(ns, d.Name)
				}
			}
			parts = append(parts, "("+c.S(k)+", "+c.Strs(ns)+")")
		}
		return "[" + strings.Join(parts, "; ") + "]"
	}
	root := func(d *ast.Definition) string {
		if d == nil {
			return ""
		}
		return d.Name
	}
	return "{| m_types := [" + strings.Join(defs, ";\n  ") + "]; m_dirs := [" + strings.Join(dirs, ";\n  ") + "];\n  m_possible := " +
		nameLists(s.PossibleTypes) + "; m_implements := " + nameLists(s.Implements) + ";\n  m_roots := " +
		c.Strs([]string{root(s.Query), root(s.Mutation), root(s.Subscription)}) + " |}"
}

func (c *CoqFile) URLMapOrdered(m gateway.FieldURLMap) string { return c.URLMap(m) }

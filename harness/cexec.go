package main

// Executor protocol harness (C05, C06, C07 errors, C13 calls): hand-made plans whose queryers are
// under the harness's control, run through ParallelExecutor.Execute under several schedules.

import (
	"context"
	"encoding/json"
	"errors"
	"fmt"
	"math/rand"
	"regexp"
	"runtime"
	"strconv"
	"strings"
	"sync"
	"time"

	"github.com/nautilus/gateway"
	"github.com/nautilus/graphql"
	"github.com/vektah/gqlparser/v2/ast"
)

func init() {
	props["C05"] = func(cfg *runCfg) error { return runExec(cfg, "C05") }
	props["C06"] = func(cfg *runCfg) error { return runExec(cfg, "C06") }
}

const execHeader = `From Coq Require Import String List ZArith Bool.
Import ListNotations.
From GW Require Import Base.Res Base.Json Gw.ExecLTS Gw.ExecCheck Gw.Points Gw.PointsCheck.
Local Open Scope string_scope.
Local Open Scope bool_scope.
`

// a step of the synthetic plan
type xStep struct {
	ID      int      `json:"id"`
	Fan     int      `json:"fan"`            // how many objects its list field returns (children steps fan out over them)
	Fail    string   `json:"fail,omitempty"` // "" | transport | partial | shape
	FailIDs []string `json:"fail_ids,omitempty"`
	Kids    []*xStep `json:"kids,omitempty"`
	field   string
}

type xPlan struct {
	Roots []*xStep `json:"roots"`
}

type xNode struct {
	N     int
	Fails bool
	Kids  []*xNode
}

type xSchedule struct {
	Seed   int64 `json:"seed"`
	Yield  int   `json:"yield_percent"`
	MaxDel int   `json:"max_delay_us"`
	// the collector is held at its first result for this long: results pile up behind it until the
	// result channel is full and the publishing steps block
	StallMs int `json:"collector_stall_ms,omitempty"`
	// GOMAXPROCS for the run (0 = unchanged)
	Procs int `json:"procs,omitempty"`
}

type xCase struct {
	Plan      *xPlan      `json:"plan"`
	Schedules []xSchedule `json:"schedules"`
}

// realised call tree: step s is called once per object of its parent's list (once for a root);
// a transport failure delivers no data, so nothing hangs below it
func realise(s *xStep, objID string, counter *int, fails func(s *xStep, obj string) string) *xNode {
	n := &xNode{N: *counter}
	*counter++
	f := fails(s, objID)
	n.Fails = f != ""
	if noData(f) {
		return n
	}
	for _, k := range s.Kids {
		for i := 0; i < s.Fan; i++ {
			n.Kids = append(n.Kids, realise(k, fmt.Sprintf("s%d-%s-o%d", s.ID, objID, i), counter, fails))
		}
	}
	return n
}

// a failure that delivers nothing to stitch and starts no dependent: a transport error, or an
// answer in which the list of the LAST dependent has the wrong shape (the insertion points of
// the earlier dependents are found, then the search for the last one's fails)
func noData(f string) bool { return f == "transport" || f == "shape" }

func stepFails(s *xStep, obj string) string {
	if s.Fail == "" {
		return ""
	}
	if len(s.FailIDs) == 0 {
		return s.Fail
	}
	for _, x := range s.FailIDs {
		if x == obj {
			return s.Fail
		}
	}
	return ""
}

func (c *CoqFile) xTree(n *xNode) string {
	kids := []string{}
	for _, k := range n.Kids {
		kids = append(kids, c.xTree(k))
	}
	return fmt.Sprintf("Node %d %s [%s]", n.N, coqBool(n.Fails), strings.Join(kids, "; "))
}

type xRun struct {
	mu          sync.Mutex
	numbering   map[string]int // "step|obj" -> node number
	called      []int
	ins         []int
	pending     []string
	failedRoots []int
	returned    bool
	late        int
	out         int
	outAtRet    int
	sched       *rand.Rand
	schedMu     sync.Mutex
	yield       int
	maxDel      int
	stallMs     int
	stalled     bool
}

func (x *xRun) maybeYield() {
	x.schedMu.Lock()
	p := x.sched.Intn(100)
	d := 0
	if x.maxDel > 0 {
		d = x.sched.Intn(x.maxDel)
	}
	x.schedMu.Unlock()
	if p < x.yield {
		if p%2 == 0 {
			runtime.Gosched()
		} else {
			time.Sleep(time.Duration(d) * time.Microsecond)
		}
	}
}

var reMark = regexp.MustCompile(`mark[^:]*:([0-9]+)`)

// xLogger observes the executor's own log call sites
type xLogger struct{ x *xRun }

// Debug does what a formatting logger does: it renders its arguments, here after whatever delay
// the schedule puts at this call site (a value that is still being written while a log call
// holds it is then read concurrently: the race detector of the thorough tier reports it, and
// the runtime itself may abort with "concurrent map iteration and map write")
func (l xLogger) Debug(args ...interface{}) {
	l.debug(args...)
	_ = fmt.Sprint(args...)
}

func (l xLogger) debug(args ...interface{}) {
	if len(args) == 0 {
		return
	}
	s, _ := args[0].(string)
	switch {
	case strings.HasPrefix(s, "Inserting result"):
		l.x.mu.Lock()
		stall := 0
		if l.x.stallMs > 0 && !l.x.stalled {
			l.x.stalled = true
			stall = l.x.stallMs
		}
		l.x.mu.Unlock()
		if stall > 0 {
			time.Sleep(time.Duration(stall) * time.Millisecond)
		}
		// the collector took a result: remember where it goes (only the collector logs this)
		if len(args) > 1 {
			if ip, ok := args[1].([]string); ok {
				l.x.mu.Lock()
				l.x.pending = append([]string{}, ip...)
				l.x.mu.Unlock()
			}
		}
		l.x.maybeYield()
	case strings.HasPrefix(s, "Result: "):
		// ... and which node it is: by its mark, else by its insertion point, else a failed root
		node := -1
		if len(args) > 1 {
			if m, ok := args[1].(map[string]interface{}); ok {
				for k, v := range m {
					if strings.HasPrefix(k, "mark") {
						if f, ok := v.(float64); ok {
							node = int(f)
						}
					}
				}
			}
		}
		l.x.mu.Lock()
		if node < 0 && len(l.x.pending) > 0 {
			last := l.x.pending[len(l.x.pending)-1] // l<parent>_<kid>:<idx>#<objid>
			if h := strings.Index(last, "#"); h > 0 {
				var ps, ki int
				fmt.Sscanf(last, "l%d_%d:", &ps, &ki)
				if n, ok := l.x.numbering[fmt.Sprintf("kid%d_%d|%s", ps, ki, last[h+1:])]; ok {
					node = n
				}
			}
		}
		if node < 0 && len(l.x.pending) == 0 && len(l.x.failedRoots) > 0 {
			node = l.x.failedRoots[0]
			l.x.failedRoots = l.x.failedRoots[1:]
		}
		if node < 0 {
			node = 777777
		}
		l.x.ins = append(l.x.ins, node)
		l.x.mu.Unlock()
		l.x.maybeYield()
	default: // "Pushing Result", "Done." and any other call site
		l.x.maybeYield()
	}
}
func (l xLogger) Info(args ...interface{}) {
	if len(args) > 0 {
		if s, _ := args[0].(string); strings.HasPrefix(s, "Spawn") {
			l.x.maybeYield()
		}
	}
}
func (l xLogger) Warn(args ...interface{})                              {}
func (l xLogger) WithFields(fields gateway.LoggerFields) gateway.Logger { return l }
func (l xLogger) QueryPlanStep(step *gateway.QueryPlanStep)             {}

type xQueryer struct {
	x    *xRun
	step *xStep
	root bool
}

func (q *xQueryer) Query(ctx context.Context, in *graphql.QueryInput, recv interface{}) error {
	obj := "root"
	if !q.root {
		obj = fmt.Sprint(in.Variables["id"])
	}
	x := q.x
	x.mu.Lock()
	n, known := x.numbering[fmt.Sprintf("%d|%s", q.step.ID, obj)]
	if !known {
		n = 100000 + len(x.called) // a call the realised tree does not contain
	}
	x.called = append(x.called, n)
	x.out++
	if x.returned {
		x.late++
	}
	x.mu.Unlock()
	x.maybeYield()
	x.schedMu.Lock()
	d := 0
	if x.maxDel > 0 {
		d = x.sched.Intn(x.maxDel)
	}
	x.schedMu.Unlock()
	time.Sleep(time.Duration(d) * time.Microsecond)
	defer func() {
		x.mu.Lock()
		x.out--
		x.mu.Unlock()
	}()
	fail := stepFails(q.step, obj)
	if fail == "transport" {
		return fmt.Errorf("fail %d", n)
	}
	res := map[string]interface{}{fmt.Sprintf("mark%d", q.step.ID): float64(n)}
	// one list per dependent step, so that an insertion point names the step it belongs to
	for ki := 0; ki < len(q.step.Kids) || ki == 0; ki++ {
		objs := []interface{}{}
		for i := 0; i < q.step.Fan; i++ {
			objs = append(objs, map[string]interface{}{"id": fmt.Sprintf("s%d-%s-o%d", q.step.ID, obj, i)})
		}
		res[fmt.Sprintf("%s_%d", q.step.field, ki)] = objs
	}
	if fail == "shape" && len(q.step.Kids) > 0 {
		// (the executor quotes the value in its error: that is how the error names its node)
		res[fmt.Sprintf("%s_%d", q.step.field, len(q.step.Kids)-1)] = fmt.Sprintf("fail %d", n)
	}
	out := recv.(*map[string]interface{})
	if q.root {
		*out = res
	} else {
		*out = map[string]interface{}{"node": res}
	}
	if fail == "partial" {
		return graphql.ErrorList{&graphql.Error{Message: fmt.Sprintf("fail %d", n)}}
	}
	return nil
}

func listField(name string) *ast.Field {
	return &ast.Field{Name: name, Alias: name,
		Definition:   &ast.FieldDefinition{Name: name, Type: ast.ListType(ast.NamedType("Obj", &ast.Position{}), &ast.Position{})},
		SelectionSet: ast.SelectionSet{&ast.Field{Name: "id", Alias: "id", Definition: &ast.FieldDefinition{Name: "id", Type: ast.NonNullNamedType("ID", &ast.Position{})}}}}
}

func buildStep(x *xRun, s *xStep, path []string, root bool) *gateway.QueryPlanStep {
	s.field = fmt.Sprintf("l%d", s.ID)
	st := &gateway.QueryPlanStep{
		Queryer:        &xQueryer{x: x, step: s, root: root},
		ParentType:     "Obj",
		InsertionPoint: append([]string{}, path...),
		SelectionSet:   ast.SelectionSet{listField(s.field + "_0")},
		Variables:      gateway.Set{},
	}
	if root {
		st.ParentType = "Query"
	}
	for ki, k := range s.Kids {
		if ki > 0 {
			st.SelectionSet = append(st.SelectionSet, listField(fmt.Sprintf("%s_%d", s.field, ki)))
		}
		st.Then = append(st.Then, buildStep(x, k, append(append([]string{}, path...), fmt.Sprintf("%s_%d", s.field, ki)), false))
	}
	return st
}

func genXStep(r *rand.Rand, id *int, depth int, bigFan bool) *xStep {
	s := &xStep{ID: *id}
	*id++
	s.Fan = r.Intn(4)
	if bigFan && r.Intn(3) == 0 {
		s.Fan = 8 + r.Intn(30)
	}
	switch p := r.Intn(100); {
	case p < 12:
		s.Fail = "transport"
	case p < 24:
		s.Fail = "partial"
	}
	if depth > 0 {
		nk := r.Intn(3)
		for i := 0; i < nk; i++ {
			s.Kids = append(s.Kids, genXStep(r, id, depth-1, bigFan))
		}
	}
	if s.Fail == "" && len(s.Kids) > 0 && r.Intn(100) < 12 {
		s.Fail = "shape"
	}
	return s
}

type xObs struct {
	Returned     bool                   `json:"returned"`
	Called       []int                  `json:"called"`
	Ins          []int                  `json:"inserted"`
	Errs         []int                  `json:"errors"`
	Late         int                    `json:"late_calls"`
	Outstanding  int                    `json:"outstanding_at_return"`
	ChangedAfter bool                   `json:"changed_after_return"`
	Leaked       int                    `json:"goroutines_leaked"`
	Data         map[string]interface{} `json:"data,omitempty"`
	Note         string                 `json:"note,omitempty"`
}

var reFail = regexp.MustCompile(`fail ([0-9]+)`)

func runOnce(pl *xPlan, sc xSchedule, numbering map[string]int) xObs {
	x := &xRun{numbering: numbering, sched: rand.New(rand.NewSource(sc.Seed)), yield: sc.Yield, maxDel: sc.MaxDel, stallMs: sc.StallMs}
	if sc.Procs > 0 {
		old := runtime.GOMAXPROCS(sc.Procs)
		defer runtime.GOMAXPROCS(old)
	}
	for i := 0; i < numbering["failed-roots"]; i++ {
		x.failedRoots = append(x.failedRoots, numbering[fmt.Sprintf("failed-root-%d", i)])
	}
	root := &gateway.QueryPlanStep{}
	for _, rs := range pl.Roots {
		root.Then = append(root.Then, buildStep(x, rs, nil, true))
	}
	plan := &gateway.QueryPlan{Operation: &ast.OperationDefinition{Name: "X"}, RootStep: root}
	ctx := gateway.VerifExecutionContext(context.Background(), xLogger{x}, plan, map[string]interface{}{})
	base := runtime.NumGoroutine()
	type res struct {
		d   map[string]interface{}
		err error
	}
	ch := make(chan res, 1)
	go func() {
		defer func() {
			if p := recover(); p != nil {
				ch <- res{err: fmt.Errorf("PANIC %v", p)}
			}
		}()
		d, err := (&gateway.ParallelExecutor{}).Execute(ctx)
		x.mu.Lock()
		x.returned = true
		x.outAtRet = x.out
		x.mu.Unlock()
		ch <- res{d, err}
	}()
	obs := xObs{}
	var r res
	select {
	case r = <-ch:
		obs.Returned = true
	case <-time.After(8 * time.Second):
		obs.Note = "Execute did not return within 8s"
		x.mu.Lock()
		obs.Called = append([]int{}, x.called...)
		obs.Ins = append([]int{}, x.ins...)
		x.mu.Unlock()
		return obs
	}
	if r.err != nil && strings.HasPrefix(r.err.Error(), "PANIC") {
		obs.Note = r.err.Error()
		obs.Returned = false
	}
	snap, _ := json.Marshal(r.d)
	time.Sleep(15 * time.Millisecond)
	after, _ := json.Marshal(r.d)
	obs.ChangedAfter = string(snap) != string(after)
	for i := 0; i < 20 && runtime.NumGoroutine() > base; i++ {
		time.Sleep(5 * time.Millisecond)
	}
	if g := runtime.NumGoroutine() - base; g > 0 {
		obs.Leaked = g
	}
	x.mu.Lock()
	obs.Called = append([]int{}, x.called...)
	obs.Ins = append([]int{}, x.ins...)
	obs.Late = x.late
	obs.Outstanding = x.outAtRet
	x.mu.Unlock()
	if r.err != nil {
		var el graphql.ErrorList
		if errors.As(r.err, &el) {
			for _, e := range el {
				if m := reFail.FindStringSubmatch(e.Error()); m != nil {
					n, _ := strconv.Atoi(m[1])
					obs.Errs = append(obs.Errs, n)
				} else {
					obs.Errs = append(obs.Errs, 999999) // an error nobody injected
					obs.Note += " unexpected error: " + e.Error()
				}
			}
		} else {
			obs.Errs = append(obs.Errs, 999998)
			obs.Note += " non-list error: " + r.err.Error()
		}
	}
	obs.Data = r.d
	return obs
}

func nats(l []int) string {
	p := make([]string, len(l))
	for i, x := range l {
		p[i] = strconv.Itoa(x)
	}
	return "[" + strings.Join(p, "; ") + "]"
}

func runExec(cfg *runCfg, prop string) error {
	n := cfg.N
	if n == 0 {
		n = 150
		if cfg.Tier == "thorough" {
			n = 2500
		}
	}
	r := rand.New(rand.NewSource(cfg.Seed))
	sh := NewSharder(cfg.Out, "cases_"+prop, execHeader, 40_000)
	doc := &CasesDoc{Property: prop, Seed: cfg.Seed, Tier: cfg.Tier, Dist: map[string]int{}}
	var cases []*xCase
	if cfg.Replay != "" {
		var kind struct {
			Case struct {
				Kind  string          `json:"kind"`
				Input json.RawMessage `json:"input"`
			} `json:"case"`
		}
		if err := readJSON(cfg.Replay, &kind); err != nil {
			return err
		}
		if kind.Case.Kind == "stitch-conflict" {
			cc := &conflictCase{}
			if err := json.Unmarshal(kind.Case.Input, cc); err != nil {
				return err
			}
			cid := 0
			conflictCases(cfg, r, sh, doc, &cid, 1, cc)
			if err := sh.Flush(); err != nil {
				return err
			}
			doc.Shards = sh.Files
			return doc.Write(cfg.Out)
		}
		if kind.Case.Kind == "points" {
			pc := &ptCase{}
			if err := json.Unmarshal(kind.Case.Input, pc); err != nil {
				return err
			}
			pid := 0
			pointsCases(r, sh, doc, &pid, 1, pc)
			if err := sh.Flush(); err != nil {
				return err
			}
			doc.Shards = sh.Files
			return doc.Write(cfg.Out)
		}
		xc := &xCase{}
		if err := json.Unmarshal(kind.Case.Input, xc); err != nil {
			return err
		}
		cases = append(cases, xc)
	} else {
		// the shape that dead-locked the pinned tree first: one parent, many failing children
		many := &xStep{ID: 0, Fan: 40, Kids: []*xStep{{ID: 1, Fan: 0, Fail: "transport"}}}
		cases = append(cases, &xCase{Plan: &xPlan{Roots: []*xStep{many}}, Schedules: []xSchedule{{Seed: 1, Yield: 60, MaxDel: 300}, {Seed: 2, Yield: 0, MaxDel: 0}}})
		// a collector that falls behind: twelve plain root steps and one whose dependents start late,
		// and a fan-out wider than the result channel, with the collector held at its first result
		{
			late := &xPlan{}
			for k := 0; k < 12; k++ {
				late.Roots = append(late.Roots, &xStep{ID: k, Fan: 0})
			}
			late.Roots = append(late.Roots, &xStep{ID: 12, Fan: 2, Kids: []*xStep{{ID: 13, Fan: 0}}})
			wide := &xPlan{Roots: []*xStep{{ID: 0, Fan: 40, Kids: []*xStep{{ID: 1, Fan: 0}}}}}
			for _, pl := range []*xPlan{late, wide} {
				cases = append(cases, &xCase{Plan: pl, Schedules: []xSchedule{
					{Seed: 3, Yield: 0, MaxDel: 0, StallMs: 60, Procs: 1}, {Seed: 4, Yield: 0, MaxDel: 100, StallMs: 60, Procs: 1},
					{Seed: 5, Yield: 0, MaxDel: 0, StallMs: 60}, {Seed: 6, Yield: 30, MaxDel: 200, StallMs: 30, Procs: 2}}})
			}
		}
		for i := 0; i < n; i++ {
			id := 0
			pl := &xPlan{}
			nr := 1 + r.Intn(3)
			if r.Intn(8) == 0 {
				nr = 11 + r.Intn(4) // more root steps than the result channel holds
			}
			for k := 0; k < nr; k++ {
				pl.Roots = append(pl.Roots, genXStep(r, &id, r.Intn(3), (cfg.Tier == "thorough" && i%3 == 0) || i%10 == 0))
			}
			cs := &xCase{Plan: pl}
			for k := 0; k < 3; k++ {
				cs.Schedules = append(cs.Schedules, xSchedule{Seed: r.Int63(), Yield: []int{0, 30, 70}[k], MaxDel: []int{0, 200, 1500}[r.Intn(3)]})
			}
			if i%6 == 0 {
				cs.Schedules = append(cs.Schedules, xSchedule{Seed: r.Int63(), Yield: 0, MaxDel: []int{0, 200}[r.Intn(2)], StallMs: 25, Procs: 1 + r.Intn(2)})
			}
			cases = append(cases, cs)
		}
	}
	id := 0
	for _, cs := range cases {
		// number the realised nodes
		counter := 0
		numbering := map[string]int{}
		var roots []*xNode
		var number func(s *xStep, obj string) *xNode
		number = func(s *xStep, obj string) *xNode {
			nd := &xNode{N: counter}
			numbering[fmt.Sprintf("%d|%s", s.ID, obj)] = counter
			counter++
			f := stepFails(s, obj)
			nd.Fails = f != ""
			if noData(f) {
				return nd
			}
			for ki, k := range s.Kids {
				for i := 0; i < s.Fan; i++ {
					co := fmt.Sprintf("s%d-%s-o%d", s.ID, obj, i)
					numbering[fmt.Sprintf("kid%d_%d|%s", s.ID, ki, co)] = counter
					nd.Kids = append(nd.Kids, number(k, co))
				}
			}
			return nd
		}
		failedRoots := []int{}
		for _, rs := range cs.Plan.Roots {
			t := number(rs, "root")
			if noData(stepFails(rs, "root")) {
				failedRoots = append(failedRoots, t.N)
			}
			roots = append(roots, t)
		}
		numbering["failed-roots"] = len(failedRoots)
		for i, fr := range failedRoots {
			numbering[fmt.Sprintf("failed-root-%d", i)] = fr
		}
		limit := 300
		if cfg.Tier == "thorough" {
			limit = 450 // (a tree of 770 nodes is a 5 MB term that takes a quarter of an hour to evaluate)
		}
		if counter > limit {
			continue // keep the Coq terms small
		}
		c := sh.File()
		trees := []string{}
		for _, t := range roots {
			trees = append(trees, c.xTree(t))
		}
		c.Printf("Definition tree%d := [%s].\n", id, strings.Join(trees, "; "))
		var datas []string
		allObs := []xObs{}
		model := []string{}
		oracle := []string{}
		for _, sc := range cs.Schedules {
			cfg.Crumb("plan-execution", cs)
			o := runOnce(cs.Plan, sc, numbering)
			allObs = append(allObs, o)
			ot := fmt.Sprintf("{| ob_returned := %s; ob_called := %s; ob_ins := %s; ob_errs := %s; ob_late_calls := %d; ob_outstanding := %d; ob_changed_after := %s; ob_leaked := %d |}",
				coqBool(o.Returned), nats(o.Called), nats(o.Ins), nats(o.Errs), o.Late, o.Outstanding, coqBool(o.ChangedAfter), o.Leaked)
			model = append(model, fmt.Sprintf("model_agrees 10 tree%d %s", id, ot))
			switch prop {
			case "C06":
				oracle = append(oracle, fmt.Sprintf("c06_holds tree%d %s && c13_once tree%d %s", id, ot, id, ot))
			default:
				oracle = append(oracle, fmt.Sprintf("c05_order tree%d %s && c07_errors_exact tree%d %s", id, ot, id, ot))
			}
			datas = append(datas, c.JSON(map[string]interface{}(o.Data)))
			if !o.Returned {
				doc.Dist["did-not-return"]++
			}
		}
		if prop == "C05" {
			// the response must be the same under every schedule
			for k := 1; k < len(datas); k++ {
				oracle = append(oracle, fmt.Sprintf("json_equiv %s %s", datas[0], datas[k]))
			}
		}
		c.Printf("Eval vm_compute in (\"%d\"%%string, %s, %s).\n", id, strings.Join(model, " && "), strings.Join(oracle, " && "))
		nfail := 0
		var walk func(t *xNode)
		walk = func(t *xNode) {
			if t.Fails {
				nfail++
			}
			for _, k := range t.Kids {
				walk(k)
			}
		}
		for _, t := range roots {
			walk(t)
		}
		key, _ := json.Marshal(cs)
		for i := range allObs {
			allObs[i].Data = nil
		}
		doc.Cases = append(doc.Cases, CaseInfo{ID: id, Kind: "plan-execution", Input: cs, Observed: allObs, Nontrivial: counter >= 3, Key: string(key)})
		doc.Dist[fmt.Sprintf("nodes:%s", bucket(counter))]++
		doc.Dist[fmt.Sprintf("failing:%s", bucket(nfail))]++
		id++
	}
	if cfg.Replay == "" {
		// two steps that deliver the same key, the later one leaving nothing to stitch into
		nc := 24
		if cfg.Tier == "thorough" {
			nc = 200
		}
		conflictCases(cfg, rand.New(rand.NewSource(cfg.Seed+77)), sh, doc, &id, nc, nil)
		// what the collector does with each result: the stitching functions on their own
		pointsCases(r, sh, doc, &id, 2*n, nil)
	}
	if err := sh.Flush(); err != nil {
		return err
	}
	doc.Shards = sh.Files
	return doc.Write(cfg.Out)
}

func bucket(n int) string {
	switch {
	case n == 0:
		return "0"
	case n <= 2:
		return "1-2"
	case n <= 10:
		return "3-10"
	case n <= 50:
		return "11-50"
	case n <= 300:
		return "51-300"
	}
	return ">300"
}

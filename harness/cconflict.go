package main

// Stitch conflicts (C05, C06): two root steps deliver the same response key.  A answers a list of
// objects and has one dependent step per object; B answers later with something the dependents'
// results cannot be stitched into any more (null, a list of nulls, a string, a shorter list),
// with or without errors of its own, while some of the dependents' calls are still in flight and
// some of them fail as well.  A result can then carry a service error AND fail to be stitched,
// the error paths of the stitching functions run with the result lock in hand, and the wait group
// has to come out even all the same.  No claim is made about the data (the services disagree);
// the claim is C06's: Execute returns, after every call it issued has finished, leaving no task
// behind and never touching the response again.

import (
	"context"
	"encoding/json"
	"errors"
	"fmt"
	"math/rand"
	"runtime"
	"strings"
	"time"

	"github.com/nautilus/gateway"
	"github.com/nautilus/graphql"
	"github.com/vektah/gqlparser/v2/ast"
)

type conflictCase struct {
	Users  int      `json:"users"`
	BReply string   `json:"b_reply"`   // null | nulls | string | shorter | objects
	BErr   bool     `json:"b_errors"`  // B's reply comes with a GraphQL error list
	CKinds []string `json:"c_replies"` // per user: ok | partial | transport | node-null
	CLate  []bool   `json:"c_after_b"` // per user: the dependent call answers only after B has
	Stall  int      `json:"collector_stall_ms,omitempty"`
	// a second dependent step at the same insertion point that delivers the same response key as the
	// first (profile), with another field below it: the two replies merge, whichever arrives last
	TwoDeps bool `json:"two_dependents_one_key,omitempty"`
	DFirst  bool `json:"second_dependent_answers_first,omitempty"`
}

type cfQueryer struct {
	x    *xRun
	role string // A | B | C
	cc   *conflictCase
}

func (q *cfQueryer) Query(ctx context.Context, in *graphql.QueryInput, recv interface{}) error {
	x := q.x
	x.mu.Lock()
	x.called = append(x.called, len(x.called))
	x.out++
	if x.returned {
		x.late++
	}
	x.mu.Unlock()
	defer func() {
		x.mu.Lock()
		x.out--
		x.mu.Unlock()
	}()
	out := recv.(*map[string]interface{})
	switch q.role {
	case "A":
		users := []interface{}{}
		for i := 0; i < q.cc.Users; i++ {
			users = append(users, map[string]interface{}{"id": fmt.Sprintf("u%d", i)})
		}
		*out = map[string]interface{}{"users": users}
		return nil
	case "B":
		time.Sleep(20 * time.Millisecond)
		var v interface{}
		switch q.cc.BReply {
		case "nulls":
			l := []interface{}{}
			for i := 0; i < q.cc.Users; i++ {
				l = append(l, nil)
			}
			v = l
		case "string":
			v = "oops"
		case "shorter":
			v = []interface{}{map[string]interface{}{"id": "u0"}}
		case "objects":
			l := []interface{}{}
			for i := 0; i < q.cc.Users; i++ {
				l = append(l, map[string]interface{}{"id": fmt.Sprintf("u%d", i)})
			}
			v = l
		}
		*out = map[string]interface{}{"users": v}
		if q.cc.BErr {
			return graphql.ErrorList{&graphql.Error{Message: "service B is down"}}
		}
		return nil
	}
	if q.role == "D" {
		id := fmt.Sprint(in.Variables["id"])
		if q.cc.DFirst {
			time.Sleep(1 * time.Millisecond)
		} else {
			time.Sleep(60 * time.Millisecond)
		}
		*out = map[string]interface{}{"node": map[string]interface{}{"id": id, "profile": map[string]interface{}{"avatar": "avatar of " + id}}}
		return nil
	}
	// C: one call per user
	id := fmt.Sprint(in.Variables["id"])
	i := 0
	fmt.Sscanf(id, "u%d", &i)
	if i < len(q.cc.CLate) && q.cc.CLate[i] {
		time.Sleep(45 * time.Millisecond)
	} else {
		time.Sleep(2 * time.Millisecond)
	}
	kind := "ok"
	if i < len(q.cc.CKinds) {
		kind = q.cc.CKinds[i]
	}
	switch kind {
	case "transport":
		return fmt.Errorf("service C failed for user %d", i)
	case "node-null":
		*out = map[string]interface{}{"node": nil}
		return graphql.ErrorList{&graphql.Error{Message: fmt.Sprintf("no user %d at C", i)}}
	}
	node := map[string]interface{}{"id": id, "name": "name of " + id}
	if q.cc.TwoDeps {
		node["profile"] = map[string]interface{}{"bio": "bio of " + id}
	}
	*out = map[string]interface{}{"node": node}
	if kind == "partial" {
		return graphql.ErrorList{&graphql.Error{Message: fmt.Sprintf("service C failed for user %d", i)}}
	}
	return nil
}

func runConflictOnce(cc *conflictCase) xObs {
	x := &xRun{numbering: map[string]int{}, sched: rand.New(rand.NewSource(1)), stallMs: cc.Stall}
	idField := &ast.Field{Name: "id", Alias: "id", Definition: &ast.FieldDefinition{Name: "id", Type: ast.NonNullNamedType("ID", &ast.Position{})}}
	usersField := func() *ast.Field {
		return &ast.Field{Name: "users", Alias: "users",
			Definition:   &ast.FieldDefinition{Name: "users", Type: ast.ListType(ast.NamedType("User", &ast.Position{}), &ast.Position{})},
			SelectionSet: ast.SelectionSet{idField}}
	}
	stepC := &gateway.QueryPlanStep{Queryer: &cfQueryer{x: x, role: "C", cc: cc}, ParentType: "User", InsertionPoint: []string{"users"},
		SelectionSet: ast.SelectionSet{&ast.Field{Name: "name", Alias: "name", Definition: &ast.FieldDefinition{Name: "name", Type: ast.NamedType("String", &ast.Position{})}}},
		Variables:    gateway.Set{}}
	deps := []*gateway.QueryPlanStep{stepC}
	if cc.TwoDeps {
		leaf := func(n string) *ast.Field {
			return &ast.Field{Name: n, Alias: n, Definition: &ast.FieldDefinition{Name: n, Type: ast.NamedType("String", &ast.Position{})}}
		}
		profile := func(sub string) *ast.Field {
			return &ast.Field{Name: "profile", Alias: "profile", Definition: &ast.FieldDefinition{Name: "profile", Type: ast.NamedType("Profile", &ast.Position{})},
				SelectionSet: ast.SelectionSet{leaf(sub)}}
		}
		stepC.SelectionSet = append(stepC.SelectionSet, profile("bio"))
		deps = append(deps, &gateway.QueryPlanStep{Queryer: &cfQueryer{x: x, role: "D", cc: cc}, ParentType: "User", InsertionPoint: []string{"users"},
			SelectionSet: ast.SelectionSet{profile("avatar")}, Variables: gateway.Set{}})
	}
	stepA := &gateway.QueryPlanStep{Queryer: &cfQueryer{x: x, role: "A", cc: cc}, ParentType: "Query", InsertionPoint: []string{},
		SelectionSet: ast.SelectionSet{usersField()}, Variables: gateway.Set{}, Then: deps}
	stepB := &gateway.QueryPlanStep{Queryer: &cfQueryer{x: x, role: "B", cc: cc}, ParentType: "Query", InsertionPoint: []string{},
		SelectionSet: ast.SelectionSet{usersField()}, Variables: gateway.Set{}}
	plan := &gateway.QueryPlan{Operation: &ast.OperationDefinition{Name: "X"}, RootStep: &gateway.QueryPlanStep{Then: []*gateway.QueryPlanStep{stepA, stepB}}}
	ctx := gateway.VerifExecutionContext(context.Background(), xLogger{x}, plan, map[string]interface{}{})
	base := runtime.NumGoroutine()
	type res struct {
		d   map[string]interface{}
		err error
	}
	ch := make(chan res, 1)
	go func() {
		defer func() {
			if p := recover(); p != nil {
				ch <- res{err: fmt.Errorf("PANIC %v", p)}
			}
		}()
		d, err := (&gateway.ParallelExecutor{}).Execute(ctx)
		x.mu.Lock()
		x.returned = true
		x.outAtRet = x.out
		x.mu.Unlock()
		ch <- res{d, err}
	}()
	obs := xObs{}
	var r res
	select {
	case r = <-ch:
		obs.Returned = true
	case <-time.After(6 * time.Second):
		obs.Note = "Execute did not return within 6s"
		return obs
	}
	if r.err != nil && strings.HasPrefix(r.err.Error(), "PANIC") {
		obs.Note = r.err.Error()
		obs.Returned = false
	}
	snap, _ := json.Marshal(r.d)
	time.Sleep(60 * time.Millisecond)
	after, _ := json.Marshal(r.d)
	obs.ChangedAfter = string(snap) != string(after)
	for i := 0; i < 20 && runtime.NumGoroutine() > base; i++ {
		time.Sleep(5 * time.Millisecond)
	}
	if g := runtime.NumGoroutine() - base; g > 0 {
		obs.Leaked = g
	}
	x.mu.Lock()
	obs.Late = x.late
	obs.Outstanding = x.outAtRet
	obs.Called = append([]int{}, x.called...)
	x.mu.Unlock()
	if r.err != nil {
		var el graphql.ErrorList
		if errors.As(r.err, &el) {
			obs.Note += fmt.Sprintf(" %d error entries", len(el))
		}
	}
	obs.Data = r.d
	return obs
}

func genConflict(r *rand.Rand) *conflictCase {
	cc := &conflictCase{Users: 2 + r.Intn(3)}
	cc.BReply = []string{"null", "nulls", "string", "shorter", "objects"}[r.Intn(5)]
	cc.BErr = r.Intn(2) == 0
	for i := 0; i < cc.Users; i++ {
		cc.CKinds = append(cc.CKinds, []string{"ok", "partial", "partial", "transport", "node-null"}[r.Intn(5)])
		cc.CLate = append(cc.CLate, r.Intn(3) != 0)
	}
	if r.Intn(4) == 0 {
		cc.Stall = 30
	}
	if r.Intn(3) == 0 {
		cc.TwoDeps, cc.DFirst = true, r.Intn(2) == 0
		cc.BReply, cc.BErr = "objects", false
	}
	return cc
}

// conflictCases runs n generated conflicts (or the one given) and prints them as cases
func conflictCases(cfg *runCfg, r *rand.Rand, sh *Sharder, doc *CasesDoc, id *int, n int, only *conflictCase) {
	for i := 0; i < n; i++ {
		cc := only
		if cc == nil {
			cc = genConflict(r)
		}
		cfg.Crumb("stitch-conflict", cc)
		o := runConflictOnce(cc)
		c := sh.File()
		ot := fmt.Sprintf("{| ob_returned := %s; ob_called := %s; ob_ins := []; ob_errs := []; ob_late_calls := %d; ob_outstanding := %d; ob_changed_after := %s; ob_leaked := %d |}",
			coqBool(o.Returned), nats(o.Called), o.Late, o.Outstanding, coqBool(o.ChangedAfter), o.Leaked)
		oracle := "quiescent_return " + ot
		if cc.BReply == "objects" && !cc.BErr {
			// here the two services agree: whatever the order of the replies, every user whose dependent
			// call brought data has its name next to its id
			users := []interface{}{}
			for i := 0; i < cc.Users; i++ {
				u := map[string]interface{}{"id": fmt.Sprintf("u%d", i)}
				if cc.CKinds[i] == "ok" || cc.CKinds[i] == "partial" {
					u["name"] = fmt.Sprintf("name of u%d", i)
				}
				if cc.TwoDeps {
					p := map[string]interface{}{"avatar": fmt.Sprintf("avatar of u%d", i)}
					if cc.CKinds[i] == "ok" || cc.CKinds[i] == "partial" {
						p["bio"] = fmt.Sprintf("bio of u%d", i)
					}
					u["profile"] = p
				}
				users = append(users, u)
			}
			oracle += fmt.Sprintf(" && json_equiv %s %s", c.JSON(map[string]interface{}(o.Data)), c.JSON(map[string]interface{}{"users": users}))
			doc.Dist["conflict:agreeing-replies-data-compared"]++
		}
		c.Printf("Eval vm_compute in (\"%d\"%%string, true, %s).\n", *id, oracle)
		key, _ := json.Marshal(cc)
		doc.Cases = append(doc.Cases, CaseInfo{ID: *id, Kind: "stitch-conflict", Input: cc, Observed: o, Nontrivial: true, Key: "conflict" + string(key)})
		doc.Dist["conflict:b-"+cc.BReply]++
		if !o.Returned {
			doc.Dist["did-not-return"]++
		}
		*id++
		if only != nil {
			break
		}
	}
}

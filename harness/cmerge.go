package main

import (
	"encoding/json"
	"fmt"
	"math/rand"
	"strings"

	"github.com/nautilus/gateway"
	"github.com/nautilus/graphql"
	"github.com/vektah/gqlparser/v2/ast"
)

func init() {
	props["C03"] = func(cfg *runCfg) error { return runMerge(cfg, "C03", 8, "c03_holds s🎉 sources internal obs") }
	props["C09"] = func(cfg *runCfg) error { return runMerge(cfg, "C09", 75, "c09_holds sources internal obs") }
	props["C10"] = func(cfg *runCfg) error { return runMerge(cfg, "C10", 35, "c10_holds obs") }
}

const mergeHeader = `From Coq Require Import String List ZArith.
Import ListNotations.
From GW Require Import Base.Res Gql.Schema Gw.Merge Gw.MergeCheck Proofs.MergeBasics Proofs.MergeProofs Proofs.MergeOrder Proofs.MergePossible.
Local Open Scope string_scope.
`

const internalSDL = `interface Node { id: ID! }
type Query { node(id: ID!): Node }`

type mergeObs struct {
	Order  []int  `json:"order"`
	Class  string `json:"class"`
	Note   string `json:"note,omitempty"`
	schema *ast.Schema
	urls   gateway.FieldURLMap
}

// loadSvcSchema parses a service's SDL; with strip the result looks like an introspected schema:
// gqlparser adds __schema and __type to Query when it loads SDL, an introspection does not list them
func loadSvcSchema(sdl string, strip bool) (*ast.Schema, error) {
	sch, err := graphql.LoadSchema(sdl)
	if err != nil || !strip {
		return sch, err
	}
	if q := sch.Types["Query"]; q != nil {
		kept := ast.FieldList{}
		for _, f := range q.Fields {
			if f.Name != "__schema" && f.Name != "__type" {
				kept = append(kept, f)
			}
		}
		q.Fields = kept
	}
	return sch, nil
}

func mergeOnce(mc *mergeCase, order []int) (obs mergeObs, srcSchemas []*ast.Schema, err error) {
	return mergeShared(mc, order, nil)
}

// mergeShared builds a gateway from the services in the given order; with shared != nil the parsed
// schemas are taken from there (the same objects for several gateways: a schema reload)
func mergeShared(mc *mergeCase, order []int, shared []*ast.Schema) (obs mergeObs, srcSchemas []*ast.Schema, err error) {
	obs.Order = order
	srcs := []*graphql.RemoteSchema{}
	for _, i := range order {
		s := mc.Services[i]
		var sch *ast.Schema
		var lerr error
		if shared != nil {
			sch = shared[i]
		} else {
			sch, lerr = loadSvcSchema(s.SDL, mc.Strip)
		}
		if lerr != nil {
			return obs, nil, fmt.Errorf("service %s: %v", s.Name, lerr)
		}
		srcs = append(srcs, &graphql.RemoteSchema{Schema: sch, URL: s.Name})
		srcSchemas = append(srcSchemas, sch)
	}
	capP := &capPlanner{inner: &gateway.MinQueriesPlanner{}}
	func() {
		defer func() {
			if r := recover(); r != nil {
				obs.Class = "panic"
				obs.Note = fmt.Sprint(r)
			}
		}()
		gw, nerr := gateway.New(srcs, gateway.WithPlanner(capP), gateway.WithLogger(quietLogger{}))
		if nerr != nil {
			obs.Class = "err"
			obs.Note = nerr.Error()
			return
		}
		obs.Class = "ok"
		_, _ = gw.GetPlans(&gateway.RequestContext{Query: "{ __typename }"})
		obs.schema = capP.Schema
		obs.urls = capP.Locs
	}()
	return obs, srcSchemas, nil
}

func runMerge(cfg *runCfg, prop string, injectPct int, oracle string) error {
	n := cfg.N
	if n == 0 {
		n = 500
		if cfg.Tier == "thorough" {
			n = 2500
		}
	}
	r := rand.New(rand.NewSource(cfg.Seed))
	sh := NewSharder(cfg.Out, "cases_"+prop, mergeHeader, 400_000)
	doc := &CasesDoc{Property: prop, Seed: cfg.Seed, Tier: cfg.Tier, Dist: map[string]int{}}
	var cases []*mergeCase
	if cfg.Replay != "" {
		var rp struct {
			Case struct {
				Input mergeCase `json:"input"`
			} `json:"case"`
		}
		if err := readJSON(cfg.Replay, &rp); err != nil {
			return err
		}
		cases = append(cases, &rp.Case.Input)
	} else {
		cases = append(cases, mergeCorpus()...)
		doc.Dist["corpus"] = len(cases)
		for i := 0; i < n; i++ {
			cases = append(cases, genMergeCase(r, injectPct))
		}
	}
	internal, err := graphql.LoadSchema(internalSDL)
	if err != nil {
		return err
	}
	id := 0
	for _, mc := range cases {
		c := sh.File()
		// sources in base order
		var base []*ast.Schema
		bad := false
		for _, s := range mc.Services {
			sch, lerr := loadSvcSchema(s.SDL, mc.Strip)
			if lerr != nil {
				doc.Dist["generator:invalid-sdl"]++
				if doc.Dist["generator:invalid-sdl"] < 4 {
					doc.Notes = append(doc.Notes, "invalid generated SDL ("+mc.Mutation+mc.Variation+"): "+lerr.Error())
				}
				bad = true
				break
			}
			base = append(base, sch)
		}
		if bad {
			continue
		}
		srcTerms := []string{}
		for i, sch := range base {
			srcTerms = append(srcTerms, "("+c.S(mc.Services[i].Name)+", "+c.Schema(sch)+")")
		}
		obsTerms := []string{}
		classes := map[string]bool{}
		var observed []mergeObs
		for _, order := range mc.Orders {
			obs, _, merr := mergeOnce(mc, order)
			if merr != nil {
				return merr
			}
			observed = append(observed, obs)
			classes[obs.Class] = true
			perm := []string{}
			for _, i := range order {
				perm = append(perm, fmt.Sprint(i))
			}
			mt := "{| m_types := []; m_dirs := []; m_possible := []; m_implements := []; m_roots := [] |}"
			ut := "[]"
			if obs.Class == "ok" {
				mt = c.Merged(obs.schema)
				ut = c.URLMap(obs.urls)
			}
			obsTerms = append(obsTerms, fmt.Sprintf("{| ob_perm := [%s]%%nat; ob_cls := %s; ob_merged := %s; ob_urls := %s |}",
				strings.Join(perm, "; "), c18Class(obs.Class), mt, ut))
		}
		if prop == "C10" {
			// "... and for every run": the first two orders once more, one after the other over the SAME
			// parsed schema objects -- whatever an earlier construction did to its sources, the next one
			// starts from them
			shared := make([]*ast.Schema, len(base))
			for i, s := range mc.Services {
				shared[i], _ = loadSvcSchema(s.SDL, mc.Strip)
			}
			for _, order := range mc.Orders[:2] {
				obs, _, _ := mergeShared(mc, order, shared)
				observed = append(observed, obs)
				perm := []string{}
				for _, i := range obs.Order {
					perm = append(perm, fmt.Sprint(i))
				}
				mt := "{| m_types := []; m_dirs := []; m_possible := []; m_implements := []; m_roots := [] |}"
				ut := "[]"
				if obs.Class == "ok" {
					mt = c.Merged(obs.schema)
					ut = c.URLMap(obs.urls)
				}
				obsTerms = append(obsTerms, fmt.Sprintf("{| ob_perm := [%s]%%nat; ob_cls := %s; ob_merged := %s; ob_urls := %s |}",
					strings.Join(perm, "; "), c18Class(obs.Class), mt, ut))
			}
			doc.Dist["same-objects-second-run"]++
		}
		if prop == "C03" && len(base) >= 3 {
			// a schema reload: two gateways built from the same parsed schema objects, the second with
			// another choice of services; the first is read only after the second was built
			n := len(base)
			shared := make([]*ast.Schema, n)
			for i, s := range mc.Services {
				shared[i], _ = loadSvcSchema(s.SDL, mc.Strip)
			}
			first, second := []int{}, []int{}
			for i := 0; i < n; i++ {
				if i != n-1 {
					first = append(first, i)
				}
				if i != n-2 {
					second = append(second, i)
				}
			}
			o1, _, _ := mergeShared(mc, first, shared)
			o2, _, _ := mergeShared(mc, second, shared)
			doc.Dist["reload-pairs"]++
			for _, obs := range []mergeObs{o1, o2} {
				observed = append(observed, obs)
				perm := []string{}
				for _, i := range obs.Order {
					perm = append(perm, fmt.Sprint(i))
				}
				mt := "{| m_types := []; m_dirs := []; m_possible := []; m_implements := []; m_roots := [] |}"
				ut := "[]"
				if obs.Class == "ok" {
					mt = c.Merged(obs.schema)
					ut = c.URLMap(obs.urls)
				}
				obsTerms = append(obsTerms, fmt.Sprintf("{| ob_perm := [%s]%%nat; ob_cls := %s; ob_merged := %s; ob_urls := %s |}",
					strings.Join(perm, "; "), c18Class(obs.Class), mt, ut))
			}
		}
		c.Printf("Definition sources%d := [%s].\nDefinition obs%d := [%s].\n", id, strings.Join(srcTerms, ";\n "), id, strings.Join(obsTerms, ";\n "))
		or := strings.NewReplacer("sources", fmt.Sprintf("sources%d", id), "obs", fmt.Sprintf("obs%d", id), "internal", c.Schema(internal), "s🎉", c.S("🎉")).Replace(oracle)
		// the model must predict every observation, and the generated sources must meet the theorems' hypothesis
		// (sources_wfb, types_wfb: the executable hypotheses of the order theorems of C10, on the services and the gateway's own schema)
		c.Printf("Eval vm_compute in (\"%d\"%%string, andb (andb (sources_wfb (map snd sources%d ++ [%s])) (types_wfb (map snd sources%d ++ [%s]))) (model_agrees %s sources%d %s obs%d), %s).\n",
			id, id, c.Schema(internal), id, c.Schema(internal), c.S("🎉"), id, c.Schema(internal), id, or)
		tag := "compatible"
		if mc.Mutation != "" {
			tag = "injected"
			doc.Dist["injected:"+strings.SplitN(mc.Mutation, ": ", 2)[1]]++
		}
		if mc.Variation != "" {
			doc.Dist["variation:"+strings.SplitN(mc.Variation, ": ", 2)[1]]++
		}
		for k := range classes {
			doc.Dist["class:"+k]++
		}
		doc.Dist[tag]++
		doc.Dist[fmt.Sprintf("services:%d", len(mc.Services))]++
		if mc.Strip {
			doc.Dist["introspected-like-sources"]++
		}
		key, _ := json.Marshal(mc)
		doc.Cases = append(doc.Cases, CaseInfo{ID: id, Kind: "merge", Input: mc, Observed: observed,
			Nontrivial: len(mc.Services) >= 2 && sharedNames(mc) > 0, Key: string(key)})
		id++
	}
	if err := sh.Flush(); err != nil {
		return err
	}
	doc.Shards = sh.Files
	return doc.Write(cfg.Out)
}

func sharedNames(mc *mergeCase) int {
	seen := map[string]int{}
	for _, s := range mc.Services {
		for _, line := range strings.Split(s.SDL, "\n") {
			f := strings.Fields(line)
			if len(f) >= 2 && (f[0] == "type" || f[0] == "interface" || f[0] == "enum" || f[0] == "input" || f[0] == "union" || f[0] == "scalar") {
				seen[f[1]]++
			}
		}
	}
	n := 0
	for _, k := range seen {
		if k > 1 {
			n++
		}
	}
	return n
}

// the inputs that failed on the pinned tree (DESIGN.md D13, D14, D15, D28), kept as a corpus
func mergeCorpus() []*mergeCase {
	mk := func(mut string, sdls ...string) *mergeCase {
		mc := &mergeCase{Mutation: mut}
		for i, s := range sdls {
			mc.Services = append(mc.Services, &mSvc{Name: string(rune('A' + i)), SDL: s})
		}
		n := len(sdls)
		id := make([]int, n)
		rev := make([]int, n)
		for i := range id {
			id[i] = i
			rev[i] = n - 1 - i
		}
		mc.Orders = [][]int{id, rev}
		return mc
	}
	q := "type Query { a: String }\n"
	rep := "directive @tag(name: String) repeatable on OBJECT | FIELD_DEFINITION\n"
	return []*mergeCase{
		mk("corpus: interface field renamed (same count)", q+"interface I { a: String }\ntype T implements I { a: String }", q+"interface I { b: String }\ntype U implements I { b: String }"),
		mk("corpus: enum value renamed (same count)", q+"enum E { A B }", q+"enum E { A C }"),
		mk("corpus: kind object vs scalar", q+"type X { a: String }", q+"scalar X"),
		mk("corpus: kind scalar vs enum", q+"scalar X", q+"enum X { A }"),
		mk("corpus: kind input vs object", q+"type X { a: String }", q+"input X { a: String }"),
		mk("corpus: kind interface vs object", q+"interface X { a: String }", q+"type X { a: String }"),
		mk("", "interface Node { id: ID! }\ntype User implements Node { id: ID! a: String }\ntype Query { u: User }", "type User { id: ID! b: String }\ntype Query { v: User }"),
		mk("corpus: default value list content", q+"type T { f(a: [Int] = [1]): String }", q+"type T { f(a: [Int] = [2]): String }"),
		mk("corpus: default value one side only", q+"type T { f(a: Int): String }", q+"type T { f(a: Int = 1): String }"),
		// a repeatable directive applied more than once: the lists are compared as multisets, whatever the order of the services
		mk("corpus: repeated directive, one application differs", q+rep+"type T @tag(name: \"a\") @tag(name: \"a\") { x: Int }", q+rep+"type T @tag(name: \"a\") @tag(name: \"b\") { x: Int }"),
		mk("", q+rep+"type T @tag(name: \"a\") @tag(name: \"b\") { x: Int }", q+rep+"type T @tag(name: \"a\") @tag(name: \"b\") { x: Int }"),
		mk("", q+rep+"type T @tag(name: \"a\") @tag(name: \"b\") { x: Int @tag(name: \"f\") @tag(name: \"g\") }", q+rep+"type T @tag(name: \"b\") @tag(name: \"a\") { x: Int @tag(name: \"g\") @tag(name: \"f\") }"),
		mk("corpus: repeated directive on a field, one application differs", q+rep+"type T { x: Int @tag(name: \"f\") @tag(name: \"g\") }", q+rep+"type T { x: Int @tag(name: \"f\") @tag(name: \"f\") }",
			q+rep+"type T { x: Int @tag(name: \"g\") @tag(name: \"f\") }"),
		mk("corpus: directive repeatable in one service only", q+rep+"type T @tag(name: \"a\") { x: Int }", q+"directive @tag(name: String) on OBJECT | FIELD_DEFINITION\ntype T @tag(name: \"a\") { x: Int }"),
		// the order of the services decided (DESIGN 6.5): the interfaces an interface implements, the directives applied to an interface, an enum, a union
		mk("", "interface Entity { id: ID! }\ninterface Node implements Entity { id: ID! }\ntype User implements Node & Entity { id: ID! name: String }\ntype Query { user: User }",
			"interface Node { id: ID! }\ntype Photo implements Node { id: ID! url: String }\ntype Query { photo: Photo }"),
		mk("corpus: directive applied to an interface in one service only", q+"directive @tag(name: String) on INTERFACE | ENUM | UNION\ninterface I @tag(name: \"a\") { a: String }\ntype T implements I { a: String }",
			q+"interface I { a: String }\ntype U implements I { a: String }"),
		mk("corpus: directive applied to an enum with another argument", q+"directive @tag(name: String) on INTERFACE | ENUM | UNION\nenum E @tag(name: \"a\") { A B }",
			q+"directive @tag(name: String) on INTERFACE | ENUM | UNION\nenum E @tag(name: \"b\") { A B }"),
		mk("corpus: directive applied to a union in one service only", q+"directive @tag(name: String) on INTERFACE | ENUM | UNION\ntype P { a: String }\ntype R { a: String }\nunion M @tag(name: \"a\") = P | R",
			q+"type P { a: String }\ntype R { a: String }\nunion M = P | R"),
		mk("corpus: directive applied to an argument in one service only", q+"directive @tag(name: String) on ARGUMENT_DEFINITION\ntype T { f(a: Int @tag(name: \"a\")): String }", q+"type T { f(a: Int): String }"),
		// two repeatable directives, the same number of applications in all but not per directive
		mk("corpus: repeated directives, equal totals, different counts per directive",
			q+rep+"directive @owner(name: String) repeatable on OBJECT | FIELD_DEFINITION\ntype T { x: Int @tag(name: \"a\") @tag(name: \"a\") @owner(name: \"x\") }",
			q+rep+"directive @owner(name: String) repeatable on OBJECT | FIELD_DEFINITION\ntype T { x: Int @tag(name: \"a\") @owner(name: \"x\") @owner(name: \"y\") }"),
		mk("corpus: repeated directives, equal totals, different counts per directive (three services)",
			q+rep+"directive @owner(name: String) repeatable on OBJECT | FIELD_DEFINITION\ntype T @tag(name: \"a\") @owner(name: \"x\") @owner(name: \"y\") { x: Int }",
			q+rep+"directive @owner(name: String) repeatable on OBJECT | FIELD_DEFINITION\ntype T @tag(name: \"a\") @tag(name: \"a\") @owner(name: \"x\") { x: Int }",
			q+rep+"directive @owner(name: String) repeatable on OBJECT | FIELD_DEFINITION\ntype T @tag(name: \"a\") @tag(name: \"a\") @owner(name: \"x\") { x: Int }"),
		// every root operation type of every service is a root of the merged schema
		mk("", "type Query { a: String }\ntype Subscription { changed(id: ID!): String }\ntype Mutation { touch: String }", "type Query { b: String }\ntype Subscription { added: String }"),
		mk("", "type Query { a: String }\ntype Subscription { changed(id: ID!): String }", "type Query { b: String }"),
		mk("corpus: union different member (same count)", q+"type P { a: String }\ntype R { a: String }\nunion M = P | R", q+"type P { a: String }\ntype S { a: String }\nunion M = P | S"),
	}
}

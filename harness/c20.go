package main

import (
	"encoding/json"
	"fmt"
	"math/rand"
	"sort"
	"strings"
	"time"

	"github.com/nautilus/gateway"
	"github.com/vektah/gqlparser/v2"
	"github.com/vektah/gqlparser/v2/ast"
)

func init() { props["C20"] = runC20 }

const c20Header = `From Coq Require Import String List ZArith.
Import ListNotations.
From GW Require Import Base.Res Gql.Syntax Gw.Locate Gw.LocateCheck Gw.Plan Gw.PlanCheck Gw.Plan2 Gw.PlanCheck2.
Local Open Scope bool_scope.
Local Open Scope string_scope.
`

type planResult struct {
	plans gateway.QueryPlanList
	err   error
	panic interface{}
}

// planWatch plans under a watchdog: a hang is a result, not a timeout of the check
func planWatch(f *Fed, query string, d time.Duration) (gateway.QueryPlanList, string, string) {
	ch := make(chan planResult, 1)
	go func() {
		defer func() {
			if r := recover(); r != nil {
				ch <- planResult{panic: r}
			}
		}()
		p, err := f.Plan(query)
		ch <- planResult{plans: p, err: err}
	}()
	select {
	case r := <-ch:
		if r.panic != nil {
			return nil, "panic", fmt.Sprint(r.panic)
		}
		if r.err != nil {
			return nil, "error", r.err.Error()
		}
		return r.plans, "ok", ""
	case <-time.After(d):
		return nil, "hang", "planning did not return within " + d.String()
	}
}

type c20Case struct {
	Fed     *FedSpec  `json:"federation"`
	Query   *GenQuery `json:"query"`
	OptSeed int64     `json:"option_order_seed"`
}

func c20Knobs(r *rand.Rand) qKnobs {
	return qKnobs{Depth: 1 + r.Intn(3), NamedFrags: r.Intn(3) > 0, InlineFrags: true, Untyped: r.Intn(3) == 0,
		Directives: r.Intn(3) == 0, FragDirs: false, Variables: r.Intn(2) == 0, Aliases: true, AliasShadow: r.Intn(3) == 0,
		Typename: r.Intn(2) == 0, RepeatKeys: r.Intn(4) == 0, NodeField: r.Intn(3) == 0, Mutation: r.Intn(4) == 0, MaxFields: 3 + r.Intn(3)}
}

func runC20(cfg *runCfg) error {
	n := cfg.N
	if n == 0 {
		n = 500
		if cfg.Tier == "thorough" {
			n = 8000
		}
	}
	r := rand.New(rand.NewSource(cfg.Seed))
	sh := NewSharder(cfg.Out, "cases_C20", c20Header, 200_000)
	doc := &CasesDoc{Property: "C20", Seed: cfg.Seed, Tier: cfg.Tier, Dist: map[string]int{}}
	var cases []*c20Case
	if cfg.Replay != "" {
		var rp struct {
			Case struct {
				Input c20Case `json:"input"`
			} `json:"case"`
		}
		if err := readJSON(cfg.Replay, &rp); err != nil {
			return err
		}
		cases = append(cases, &rp.Case.Input)
	}
	id := 0
	invalid := 0
	// a planner that does not return keeps its goroutine (and its memory) growing: the first hang is
	// recorded and ends the generation
	stop := false
	for i := 0; !stop && ((cfg.Replay == "" && i < n) || (cfg.Replay != "" && i < len(cases))); i++ {
		var cs *c20Case
		var fed *Fed
		var st *Store
		if cfg.Replay != "" {
			cs = cases[i]
			st = genStore(rand.New(rand.NewSource(1)), cs.Fed, false)
		} else {
			g := &fedGen{r: r, MultiHomePct: []int{0, 20, 45, 70}[r.Intn(4)], Iface: true}
			spec := g.Spec()
			st = genStore(r, spec, false)
			cs = &c20Case{Fed: spec, OptSeed: r.Int63()}
		}
		var err error
		fed, err = NewFed(cs.Fed, st, rand.New(rand.NewSource(cs.OptSeed)))
		if err != nil {
			return fmt.Errorf("federation %d does not build: %v", i, err)
		}
		nq := 3
		if cfg.Replay != "" {
			nq = 1
		}
		for qi := 0; qi < nq && !stop; qi++ {
			q := cs.Query
			if cfg.Replay == "" {
				q = genQuery(r, cs.Fed, st, c20Knobs(r))
			}
			parsed, verr := gqlparser.LoadQuery(fed.Cap.Schema, q.Text)
			if verr != nil {
				invalid++
				doc.Dist["generator:invalid-query"]++
				if invalid < 4 {
					doc.Notes = append(doc.Notes, "invalid generated query: "+verr.Error()+" :: "+q.Text)
				}
				continue
			}
			fed.Disturb(q.Text)
			plans, class, note := planWatch(fed, q.Text, 2*time.Second)
			if class == "hang" {
				stop = true
				doc.Notes = append(doc.Notes, "generation stopped at the first planning that did not return")
			}
			for k, v := range q.Feats {
				doc.Dist["feature:"+k] += v
			}
			doc.Dist["plan:"+class]++
			if cs.Fed.HasPrio {
				doc.Dist["with-priorities"]++
			}
			doc.Dist[fmt.Sprintf("services:%d", len(cs.Fed.Services))]++
			// one case per operation
			for oi, op := range parsed.Operations {
				var fields, injected []routedField
				multi := 0
				if class == "ok" {
					stepFields(plans[oi].RootStep, locationOf(plans[oi].RootStep.Queryer), &fields, &injected)
				}
				sort.Slice(fields, func(a, b int) bool {
					return strings.Join(fields[a].Path, "/")+fields[a].Name < strings.Join(fields[b].Path, "/")+fields[b].Name
				})
				c := sh.File()
				obs := []string{}
				for _, f := range fields {
					obs = append(obs, fmt.Sprintf("{| of_path := %s; of_name := %s; of_loc := %s |}", c.Strs(f.Path), c.S(f.Name), c.S(f.Loc)))
				}
				fuel := len(parsed.Fragments) + 2
				common := fmt.Sprintf("%d %s %s %s %s %s %s", fuel, c.Strs(cs.Fed.Priorities), c.URLMap(fed.Cap.Locs), c.FieldTypes(fed.Cap.Schema),
					c.Frags(parsed.Fragments), c.S(opTypeName(op)), c.Sels(op.SelectionSet))
				obsTerm := fmt.Sprintf("{| ob_planned := %s; ob_fields := [%s] |}", coqBool(class == "ok"), strings.Join(obs, "; "))
				c.Printf("Definition in%d := (%s).\n", id, "tt")
				planModel := ""
				if class == "ok" && oi < len(plans) {
					// the full planner model: every step with its selection and fragment definitions
					planModel = fmt.Sprintf(" && plan2_agrees 400 %s %s %s %s %s %s %s", c.Strs(cs.Fed.Priorities), c.URLMap(fed.Cap.Locs), c.FieldTypes(fed.Cap.Schema),
						c.Frags(parsed.Fragments), c.S(opTypeName(op)), c.Sels(op.SelectionSet), c.fstep(plans[oi].RootStep))
					doc.Dist["model:plan2-compared"]++
				}
				c.Printf("Eval vm_compute in (\"%d\"%%string, model_agrees %s %s%s, property_holds %s %s).\n", id, common, obsTerm, planModel, common, obsTerm)
				// non-trivial: some field of the query is offered by two or more services
				for _, f := range fields {
					_ = f
				}
				for k, v := range fed.Cap.Locs {
					_ = k
					if len(v) > 1 {
						multi++
					}
				}
				crosses := map[string]bool{}
				for _, f := range fields {
					crosses[f.Loc] = true
				}
				one := *cs
				one.Query = q
				key, _ := json.Marshal(one)
				doc.Cases = append(doc.Cases, CaseInfo{ID: id, Kind: "plan", Input: one,
					Observed:   map[string]interface{}{"class": class, "note": note, "operation": op.Name, "fields": fields, "injected": injected},
					Nontrivial: len(crosses) > 1 || (multi > 0 && len(fields) > 1), Key: fmt.Sprintf("%d|%s", oi, key)})
				if len(crosses) > 1 {
					doc.Dist["crosses-services"]++
				}
				id++
			}
		}
	}
	_ = ast.Query
	if err := sh.Flush(); err != nil {
		return err
	}
	doc.Shards = sh.Files
	return doc.Write(cfg.Out)
}

package main

// Federation-level checks (C01, C02, C04, C07, C13, C17): generated federations, data graphs and
// documents executed through Gateway.GetPlans + Gateway.Execute with in-process services that
// really run the sub-queries; the reference answer is computed in Coq (Gql/Spec.v).

import (
	"context"
	"encoding/json"
	"fmt"
	"math/rand"
	"sort"
	"strings"
	"time"

	"github.com/nautilus/gateway"
	"github.com/nautilus/graphql"
	"github.com/vektah/gqlparser/v2"
	"github.com/vektah/gqlparser/v2/ast"
	"github.com/vektah/gqlparser/v2/formatter"
	"github.com/vektah/gqlparser/v2/parser"
)

func init() {
	for _, p := range []string{"C01", "C02", "C04", "C07", "C13", "C17"} {
		p := p
		props[p] = func(cfg *runCfg) error { return runFed(cfg, p) }
	}
}

const fedHeader = `From Coq Require Import String List ZArith Bool.
Import ListNotations.
From GW Require Import Base.Res Base.Json Gql.Syntax Gql.Spec Gql.Guards Gw.Locate Gw.LocateCheck Gw.FedCheck Gw.Points Gw.PointsCheck Gw.Select Gw.Vars Gw.Plan Gw.PlanCheck Gw.Scrub Gw.Fed Gw.Plan2 Gw.PlanCheck2.
Local Open Scope string_scope.
Local Open Scope bool_scope.
`

type fedCase struct {
	Fed     *FedSpec  `json:"federation"`
	Salt    uint32    `json:"salt"`
	Hostile bool      `json:"hostile_ids"`
	Query   *GenQuery `json:"query"`
	OpIndex int       `json:"operation_index"`
	FaultPc int       `json:"fault_percent"`
}

func (c *CoqFile) fval(v interface{}) string {
	switch x := v.(type) {
	case nil:
		return "FNull"
	case ref:
		return "(FRef " + c.S(string(x)) + ")"
	case []interface{}:
		parts := []string{}
		for _, e := range x {
			parts = append(parts, c.fval(e))
		}
		return "(FList [" + strings.Join(parts, "; ") + "])"
	case int:
		return "(FScalar " + c.JSON(float64(x)) + ")"
	default:
		return "(FScalar " + c.JSON(x) + ")"
	}
}

func (c *CoqFile) world(fed *Fed) string {
	objs := []string{}
	for _, o := range fed.Store.Objs {
		keys := sortedKeys(o.Fields)
		fs := []string{}
		for _, k := range keys {
			fs = append(fs, "("+c.S(k)+", "+c.fval(o.Fields[k])+")")
		}
		objs = append(objs, fmt.Sprintf("{| b_id := %s; b_type := %s; b_fields := [%s] |}", c.S(o.ID), c.S(o.Type), strings.Join(fs, "; ")))
	}
	roots := []string{}
	for _, k := range sortedKeys(fed.Store.Roots) {
		roots = append(roots, "("+c.S(k)+", "+c.fval(fed.Store.Roots[k])+")")
	}
	poss := []string{}
	pk := []string{}
	for k := range fed.Cap.Schema.PossibleTypes {
		if !strings.HasPrefix(k, "__") {
			pk = append(pk, k)
		}
	}
	sort.Strings(pk)
	for _, k := range pk {
		ns := []string{}
		for _, d := range fed.Cap.Schema.PossibleTypes[k] {
			ns = append(ns, d.Name)
		}
		poss = append(poss, "("+c.S(k)+", "+c.Strs(ns)+")")
	}
	return c.Intern("w", "world", fmt.Sprintf("{| w_objs := [%s]; w_roots := [%s]; w_possible := [%s]; w_ftypes := %s |}",
		strings.Join(objs, ";\n "), strings.Join(roots, "; "), strings.Join(poss, "; "), c.FieldTypes(fed.Cap.Schema)))
}

func (c *CoqFile) vars(v map[string]interface{}) string { return c.JSONMap(v) }

// varDefTexts prints variable definitions as (name, "Type = default @directives")
func (c *CoqFile) varDefTexts(defs ast.VariableDefinitionList) string {
	parts := []string{}
	for _, vd := range defs {
		if vd == nil {
			continue
		}
		t := ""
		if vd.Type != nil {
			t = vd.Type.String()
		}
		if vd.DefaultValue != nil {
			t += " = " + vd.DefaultValue.String()
		}
		for _, d := range vd.Directives {
			t += " @" + d.Name
		}
		parts = append(parts, "("+c.S(vd.Variable)+", "+c.S(t)+")")
	}
	return "[" + strings.Join(parts, "; ") + "]"
}

// what a service received, analysed with gqlparser
func (c *CoqFile) ocall(cl Call, sch *ast.Schema) string {
	declared, used, defs, spreads := []string{}, []string{}, []string{}, []string{}
	optype := "query"
	root := true
	canon := cl.Query
	if doc, err := gqlparser.LoadQuery(sch, cl.Query); err == nil || doc != nil {
		if doc != nil && len(doc.Operations) > 0 {
			op := doc.Operations[0]
			optype = string(op.Operation)
			for _, vd := range op.VariableDefinitions {
				declared = append(declared, vd.Variable)
			}
			seenV := map[string]bool{}
			seenF := map[string]bool{}
			var walkV func(v *ast.Value)
			walkV = func(v *ast.Value) {
				if v == nil {
					return
				}
				if v.Kind == ast.Variable && !seenV[v.Raw] {
					seenV[v.Raw] = true
					used = append(used, v.Raw)
				}
				for _, ch := range v.Children {
					walkV(ch.Value)
				}
			}
			var walk func(ss ast.SelectionSet)
			dirs := func(ds ast.DirectiveList) {
				for _, d := range ds {
					for _, a := range d.Arguments {
						walkV(a.Value)
					}
				}
			}
			walk = func(ss ast.SelectionSet) {
				for _, s := range ss {
					switch x := s.(type) {
					case *ast.Field:
						for _, a := range x.Arguments {
							walkV(a.Value)
						}
						dirs(x.Directives)
						walk(x.SelectionSet)
					case *ast.InlineFragment:
						dirs(x.Directives)
						walk(x.SelectionSet)
					case *ast.FragmentSpread:
						dirs(x.Directives)
						if !seenF[x.Name] {
							seenF[x.Name] = true
							spreads = append(spreads, x.Name)
							if d := doc.Fragments.ForName(x.Name); d != nil {
								walk(d.SelectionSet)
							}
						}
					}
				}
			}
			walk(op.SelectionSet)
			for _, f := range doc.Fragments {
				defs = append(defs, f.Name)
			}
			if len(op.SelectionSet) == 1 {
				if f, ok := op.SelectionSet[0].(*ast.Field); ok && f.Name == "node" && op.VariableDefinitions.ForName("id") != nil {
					if a := f.Arguments.ForName("id"); a != nil && a.Value.Kind == ast.Variable && a.Value.Raw == "id" {
						_, hasID := cl.Vars["id"]
						root = !hasID
					}
				}
			}
			// canonical text: variable definitions sorted (the planner emits them in map order)
			sort.Slice(op.VariableDefinitions, func(i, j int) bool { return op.VariableDefinitions[i].Variable < op.VariableDefinitions[j].Variable })
			var b strings.Builder
			formatter.NewFormatter(&b).FormatQueryDocument(doc)
			canon = b.String()
		}
	}
	vb, _ := json.Marshal(cl.Vars)
	return fmt.Sprintf("{| oc_service := %s; oc_valid := %s; oc_optype := %s; oc_root := %s; oc_declared := %s; oc_used := %s; oc_passed := %s; oc_frag_defs := %s; oc_frag_spreads := %s; oc_key := %s |}",
		c.S(cl.Service), coqBool(cl.Invalid == ""), c.S(optype), coqBool(root), c.Strs(declared), c.Strs(used), c.JSONMap(cl.Vars), c.Strs(defs), c.Strs(spreads),
		c.S(cl.Service+"|"+canon+"|"+string(vb)))
}

type fedObs struct {
	Class   int                    `json:"class"`
	Note    string                 `json:"note,omitempty"`
	Data    map[string]interface{} `json:"data"`
	NErrors int                    `json:"errors"`
	Calls   []Call                 `json:"calls"`
	Effects map[string]int         `json:"effects,omitempty"`
	Spawns  []string               `json:"spawns,omitempty"`
}

func fedRun(fed *Fed, text, op string, vars map[string]interface{}) fedObs {
	return fedRunOn(fed, nil, text, op, vars)
}

// fedRunOn executes on the given plans (as a plan cache hands them to every request with that
// key) instead of planning afresh
func fedRunOn(fed *Fed, plans gateway.QueryPlanList, text, op string, vars map[string]interface{}) fedObs {
	fed.Ctl.mu.Lock()
	fed.Ctl.Calls = nil
	fed.Ctl.Effects = map[string]int{}
	fed.Spawns = nil
	fed.Ctl.mu.Unlock()
	type res struct {
		d      map[string]interface{}
		pe, ee error
	}
	ch := make(chan res, 1)
	go func() {
		defer func() {
			if p := recover(); p != nil {
				ch <- res{pe: fmt.Errorf("PANIC %v", p)}
			}
		}()
		if plans != nil {
			d, ee := fed.GW.Execute(&gateway.RequestContext{Context: context.Background(), Query: text, OperationName: op, Variables: vars}, plans)
			ch <- res{d, nil, ee}
			return
		}
		d, pe, ee := fed.Run(context.Background(), text, op, vars)
		ch <- res{d, pe, ee}
	}()
	o := fedObs{}
	var r res
	select {
	case r = <-ch:
	case <-time.After(6 * time.Second):
		o.Class = 4
		o.Note = "did not return within 6s"
		return o
	}
	switch {
	case r.pe != nil && strings.HasPrefix(r.pe.Error(), "PANIC"):
		o.Class = 3
		o.Note = r.pe.Error()
	case r.pe != nil:
		o.Class = 1
		o.Note = r.pe.Error()
	case r.ee != nil:
		o.Class = 2
		o.Note = r.ee.Error()
		o.NErrors = 1
		if el, ok := r.ee.(interface{ Error() string }); ok {
			_ = el
		}
		o.NErrors = countErrors(r.ee)
	}
	o.Data = r.d
	fed.Ctl.mu.Lock()
	o.Calls = append([]Call{}, fed.Ctl.Calls...)
	o.Spawns = append([]string{}, fed.Spawns...)
	o.Effects = map[string]int{}
	for k, v := range fed.Ctl.Effects {
		o.Effects[k] = v
	}
	fed.Ctl.mu.Unlock()
	return o
}

func (c *CoqFile) observed(o fedObs, fed *Fed) string {
	calls := []string{}
	for _, cl := range o.Calls {
		calls = append(calls, c.ocall(cl, fed.Svcs[cl.Service].Schema))
	}
	effs := []string{}
	keys := []string{}
	for k := range o.Effects {
		keys = append(keys, k)
	}
	sort.Strings(keys)
	for _, k := range keys {
		effs = append(effs, fmt.Sprintf("(%s, %d)", c.S(k), o.Effects[k]))
	}
	data := "JNull"
	if o.Data != nil {
		data = c.JSON(map[string]interface{}(o.Data))
	}
	return fmt.Sprintf("{| ob_class := %d; ob_data := %s; ob_nerrors := %d; ob_calls := [%s]; ob_effects := [%s] |}", o.Class, data, o.NErrors, strings.Join(calls, ";\n  "), strings.Join(effs, "; "))
}

func fedKnobs(r *rand.Rand, prop string) qKnobs {
	k := qKnobs{Depth: 1 + r.Intn(3), InlineFrags: true, Untyped: r.Intn(2) == 0, Directives: r.Intn(2) == 0, FragDirs: r.Intn(2) == 0,
		Variables: true, Aliases: true, AliasShadow: r.Intn(2) == 0, Typename: true, RepeatKeys: r.Intn(3) == 0, NodeField: r.Intn(3) == 0,
		Mutation: r.Intn(4) == 0, MaxFields: 3 + r.Intn(3), NamedFrags: r.Intn(3) == 0, NoNestedFrag: r.Intn(2) == 0,
		AliasID: r.Intn(12) == 0, VarNamedID: r.Intn(12) == 0}
	if r.Intn(6) == 0 {
		k.Depth = 4 + r.Intn(2) // joins four and five keys deep
		k.MaxFields = 2
	}
	if prop == "C17" {
		k.MultiOp = 2 + r.Intn(3)
	} else if prop != "C13" && r.Intn(4) == 0 {
		k.MultiOp = 2 + r.Intn(2)
	}
	if k.MultiOp > 1 {
		k.ReuseVarNames = r.Intn(2) == 0
	}
	k.NullVars = r.Intn(2) == 0
	return k
}

func runFed(cfg *runCfg, prop string) error {
	n := cfg.N
	if n == 0 {
		n = 260
		if cfg.Tier == "thorough" {
			n = 5000
		}
	}
	r := rand.New(rand.NewSource(cfg.Seed))
	sh := NewSharder(cfg.Out, "cases_"+prop, fedHeader, 120_000)
	doc := &CasesDoc{Property: prop, Seed: cfg.Seed, Tier: cfg.Tier, Dist: map[string]int{}}
	var replay *fedCase
	id := 0
	if cfg.Replay != "" {
		var kind struct {
			Case struct {
				Kind  string          `json:"kind"`
				Input json.RawMessage `json:"input"`
			} `json:"case"`
		}
		if err := readJSON(cfg.Replay, &kind); err != nil {
			return err
		}
		if kind.Case.Kind == "points" {
			pc := &ptCase{}
			if err := json.Unmarshal(kind.Case.Input, pc); err != nil {
				return err
			}
			pointsCases(r, sh, doc, &id, 1, pc)
			if err := sh.Flush(); err != nil {
				return err
			}
			doc.Shards = sh.Files
			return doc.Write(cfg.Out)
		}
		replay = &fedCase{}
		if err := json.Unmarshal(kind.Case.Input, replay); err != nil {
			return err
		}
		n = 1
	}
	for i := 0; i < n; i++ {
		cs := replay
		if cs == nil {
			g := &fedGen{r: r, MultiHomePct: []int{0, 20, 45}[r.Intn(3)], Iface: r.Intn(2) == 0}
			cs = &fedCase{Fed: g.Spec(), Salt: r.Uint32(), Hostile: r.Intn(2) == 0}
			if prop == "C04" || prop == "C07" {
				cs.FaultPc = []int{0, 10, 30, 100}[r.Intn(4)]
			}
		}
		st := genStore(rand.New(rand.NewSource(int64(cs.Salt))), cs.Fed, cs.Hostile)
		fed, err := NewFed(cs.Fed, st, rand.New(rand.NewSource(int64(cs.Salt))))
		if err != nil {
			return fmt.Errorf("federation %d does not build: %v", i, err)
		}
		nq := 3
		if replay != nil {
			nq = 1
		}
		for qi := 0; qi < nq; qi++ {
			one := *cs
			if replay == nil {
				one.Query = genQuery(r, cs.Fed, st, fedKnobs(r, prop))
				one.OpIndex = 0
				if len(one.Query.Ops) > 1 {
					one.OpIndex = r.Intn(len(one.Query.Ops))
				}
			}
			q := one.Query
			parsed, verr := gqlparser.LoadQuery(fed.Cap.Schema, q.Text)
			if verr != nil {
				doc.Dist["generator:invalid-query"]++
				continue
			}
			opName := q.OpName
			if len(parsed.Operations) > 1 || prop == "C17" {
				opName = q.Ops[one.OpIndex]
			}
			op := parsed.Operations[one.OpIndex]
			if len(parsed.Operations) == 1 {
				op = parsed.Operations[0]
			}
			fed.Ctl.Fault = nil
			nfaults := 0
			if one.FaultPc > 0 {
				kinds := []string{FaultTransport, FaultPartial, FaultErrsNull, FaultNodeNull, FaultWrong, FaultErrsNode, FaultBadElem}
				// the root lists that dependent steps join onto, per service (for FaultBadElem)
				fed.Ctl.BadKeys = map[string]string{}
				if prePlans, perr := fed.Plan(q.Text); perr == nil && one.OpIndex < len(prePlans) {
					for _, rs := range prePlans[one.OpIndex].RootStep.Then {
						for _, d := range rs.Then {
							if len(d.InsertionPoint) > 0 && fed.Ctl.BadKeys[locationOf(rs.Queryer)] == "" {
								fed.Ctl.BadKeys[locationOf(rs.Queryer)] = d.InsertionPoint[0]
							}
						}
					}
				}
				fed.Ctl.Fault = func(c *Call) string {
					f := faultFor(one.Salt, one.FaultPc, c)
					if f == "" {
						return ""
					}
					// spread over all five kinds; the last two only make sense for follow-up fetches
					k := kinds[int(one.Salt+uint32(len(c.Query)))%len(kinds)]
					if dep := strings.Contains(c.Query, "$id: ID!") && strings.Contains(c.Query, "node(id: $id)"); k == FaultBadElem && (dep || fed.Ctl.BadKeys[c.Service] == "") {
						k = FaultTransport
					}
					// (a follow-up fetch is known by its text: a client variable that happens to be called id
					// does not make a root request one)
					if dep := strings.Contains(c.Query, "$id: ID!") && strings.Contains(c.Query, "node(id: $id)"); !dep && (k == FaultNodeNull || k == FaultWrong || k == FaultErrsNode) {
						k = FaultTransport
					}
					return k
				}
			}
			opVals := q.ValsFor(one.OpIndex)
			cfg.Crumb("request", &one)
			obs := fedRun(fed, q.Text, opName, opVals)
			for _, cl := range obs.Calls {
				if cl.Fault != "" {
					nfaults += cl.Entries // every entry of every failure is owed to the client
					doc.Dist["fault:"+cl.Fault]++
					doc.Dist[fmt.Sprintf("error-entries:%d", cl.Entries)]++
				}
			}
			c := sh.File()
			w := c.world(fed)
			frags := c.Frags(parsed.Fragments)
			vars := c.vars(opVals)
			// what a server computes with: the values given, and the operation's defaults for the rest
			effVars := c.vars(withDefaults(op, opVals))
			varnames := []string{}
			for _, vd := range op.VariableDefinitions {
				varnames = append(varnames, vd.Variable)
			}
			fuel := 40 + 4*len(parsed.Fragments)
			sels := c.Sels(op.SelectionSet)
			root := opTypeName(op)
			c.Printf("Definition exp%d := exec %d %s %s %s None %s %s.\n", id, fuel, w, frags, effVars, c.S(root), sels)
			c.Printf("Definition obs%d := %s.\n", id, c.observed(obs, fed))
			guards := fmt.Sprintf("guards_of %s %s %d %s %s %s", frags, c.FieldTypes(fed.Cap.Schema), len(parsed.Fragments)+3, c.S(root), c.Strs(varnames), sels)
			// model: the location assignment of the plan (when there is one)
			model := "true"
			if obs.Class == 0 || obs.Class == 2 {
				if plans, perr := fed.Plan(q.Text); perr == nil && one.OpIndex < len(plans) {
					var fields, injected []routedField
					stepFields(plans[one.OpIndex].RootStep, locationOf(plans[one.OpIndex].RootStep.Queryer), &fields, &injected)
					of := []string{}
					for _, f := range fields {
						of = append(of, fmt.Sprintf("{| of_path := %s; of_name := %s; of_loc := %s |}", c.Strs(f.Path), c.S(f.Name), c.S(f.Loc)))
					}
					model = fmt.Sprintf("LocateCheck.model_agrees %d %s %s %s %s %s %s {| ob_planned := true; ob_fields := [%s] |}",
						len(parsed.Fragments)+2, c.Strs(cs.Fed.Priorities), c.URLMap(fed.Cap.Locs), c.FieldTypes(fed.Cap.Schema), frags, c.S(root), sels, strings.Join(of, "; "))
				}
			}
			if model != "true" && len(parsed.Fragments) == 0 {
				// the planner model (documents without named fragments): the whole step tree
				if plans, perr := fed.Plan(q.Text); perr == nil && one.OpIndex < len(plans) {
					model += fmt.Sprintf(" && plan_agrees %d %s %s %s [] %s %s %s", 400, c.Strs(cs.Fed.Priorities), c.URLMap(fed.Cap.Locs),
						c.FieldTypes(fed.Cap.Schema), c.S(root), sels, c.pstep(plans[one.OpIndex].RootStep))
					doc.Dist["model:plan-compared"]++
				}
			}
			if model != "true" && (prop == "C04" || prop == "C01" || prop == "C17") {
				// the scrub paths of the plan against the model of generateScrubFields
				if plans, perr := fed.Plan(q.Text); perr == nil && one.OpIndex < len(plans) {
					pl := plans[one.OpIndex]
					if flat, ferr := graphql.ApplyFragments(pl.Operation.SelectionSet, pl.FragmentDefinitions); ferr == nil {
						paths := []string{}
						for _, pth := range pl.FieldsToScrub["id"] {
							paths = append(paths, c.Strs(pth))
						}
						model += fmt.Sprintf(" && scrub_fields_agree 400 %s %s [%s]", c.ksels(flat), c.pstep(pl.RootStep), strings.Join(paths, "; "))
						doc.Dist["model:scrub-compared"]++
					}
				}
			}
			if model != "true" {
				// the full planner model (named fragments included): step tree with each step's definitions
				if plans, perr := fed.Plan(q.Text); perr == nil && one.OpIndex < len(plans) {
					model += fmt.Sprintf(" && plan2_agrees 400 %s %s %s %s %s %s %s", c.Strs(cs.Fed.Priorities), c.URLMap(fed.Cap.Locs),
						c.FieldTypes(fed.Cap.Schema), frags, c.S(root), sels, c.fstep(plans[one.OpIndex].RootStep))
					doc.Dist["model:plan2-compared"]++
				}
			}
			if model != "true" && (prop == "C01" || prop == "C04") && len(parsed.Fragments) > 0 && obs.Class == 0 {
				// the whole request path inside Coq, named fragments included
				if flat, ferr := graphql.ApplyFragments(op.SelectionSet, parsed.Fragments); ferr == nil {
					model += fmt.Sprintf(" && fed2_agrees %d %s %s %s %s %s %s %s %s %s %s %d %s", fuel, c.Strs(cs.Fed.Priorities), c.URLMap(fed.Cap.Locs),
						c.FieldTypes(fed.Cap.Schema), c.FieldShapes(fed.Cap.Schema), w, effVars, frags, c.S(root), sels, c.ksels(flat), obs.Class, c.JSON(obs.Data))
					doc.Dist["model:whole-path-compared-fragments"]++
				}
			}
			if model != "true" && (prop == "C01" || prop == "C04") && len(parsed.Fragments) == 0 && obs.Class == 0 {
				// the whole request path inside Coq: plan, calls, stitching, scrubbing
				if flat, ferr := graphql.ApplyFragments(op.SelectionSet, parsed.Fragments); ferr == nil {
					model += fmt.Sprintf(" && fed_agrees %d %s %s %s %s %s %s %s %s %s [] %d %s", fuel, c.Strs(cs.Fed.Priorities), c.URLMap(fed.Cap.Locs),
						c.FieldTypes(fed.Cap.Schema), c.FieldShapes(fed.Cap.Schema), w, effVars, c.S(root), sels, c.ksels(flat), obs.Class, c.JSON(obs.Data))
					doc.Dist["model:whole-path-compared"]++
				}
			}
			if prop == "C02" && model != "true" {
				// the variables each step declares against the model of plan.go's bookkeeping
				if plans, perr := fed.Plan(q.Text); perr == nil && one.OpIndex < len(plans) {
					var walkSteps func(st *gateway.QueryPlanStep)
					walkSteps = func(st *gateway.QueryPlanStep) {
						if st.QueryDocument != nil && len(st.QueryDocument.Operations) == 1 {
							sv := []string{}
							for v := range st.Variables {
								sv = append(sv, v)
							}
							sort.Strings(sv)
							decl := []string{}
							for _, vd := range st.QueryDocument.Operations[0].VariableDefinitions {
								if vd != nil {
									decl = append(decl, vd.Variable)
								}
							}
							dep := st.ParentType != "Query" && st.ParentType != "Mutation" && st.ParentType != "Subscription"
							model += fmt.Sprintf(" && vars_agree %s %s %s %s %s %s", c.Sels(st.SelectionSet), c.Frags(st.FragmentDefinitions),
								c.Strs(sv), c.Strs(varnames), coqBool(dep), c.Strs(decl))
							// ... and each definition is the client's own: type, default value, directives
							model += fmt.Sprintf(" && defs_agree %s %s %s %s", c.varDefTexts(op.VariableDefinitions), c.varDefTexts(st.QueryDocument.Operations[0].VariableDefinitions), coqBool(dep), c.Strs(sv))
						}
						for _, t := range st.Then {
							walkSteps(t)
						}
					}
					walkSteps(plans[one.OpIndex].RootStep)
				}
			}
			if prop == "C17" {
				names := []string{}
				for _, o := range parsed.Operations {
					names = append(names, o.Name)
				}
				selErr := obs.Class == 2 && (strings.Contains(obs.Note, "please provide an operation name") || strings.Contains(obs.Note, "could not find query for operation"))
				ran := obs.Class != 1 && !selErr
				ranName := "<none>"
				if len(obs.Calls) > 0 {
					ranName = obs.Calls[0].OpName
				}
				sel := fmt.Sprintf("select_agrees %s %s %s %s", c.Strs(names), c.S(opName), coqBool(ran), c.S(ranName))
				if model == "true" {
					model = sel
				} else {
					model += " && " + sel
				}
			}
			var oracle string
			switch prop {
			case "C01":
				oracle = fmt.Sprintf("c01_holds exp%d obs%d", id, id)
			case "C02":
				oracle = fmt.Sprintf("c02_holds %s %s obs%d", c.S(string(op.Operation)), vars, id)
			case "C04":
				oracle = fmt.Sprintf("c04_partial_holds exp%d obs%d", id, id)
			case "C07":
				oracle = fmt.Sprintf("c07_holds exp%d %d obs%d", id, nfaults, id)
				// containment at the root: what a root call that did not fail brought is in the response,
				// whatever happened to the other calls
				must := []string{}
				for _, cl := range obs.Calls {
					if cl.Fault != "" || cl.Invalid != "" || (strings.Contains(cl.Query, "$id: ID!") && strings.Contains(cl.Query, "node(id: $id)")) {
						continue
					}
					if cd, perr := parser.ParseQuery(&ast.Source{Input: cl.Query}); perr == nil && len(cd.Operations) == 1 {
						for _, sel := range cd.Operations[0].SelectionSet {
							if f, ok := sel.(*ast.Field); ok && len(f.Directives) == 0 {
								must = append(must, f.Alias)
							}
						}
					}
				}
				oracle += fmt.Sprintf(" && root_keys_kept %s exp%d obs%d", c.Strs(must), id, id)
			case "C13":
				single := "false"
				if len(obs.Calls) > 0 && len(op.SelectionSet) == 1 {
					// every field occurrence is offered by the service that answered the root field, and no
					// configured priority names another service that offers it (a priority that does not
					// apply directs nothing elsewhere)
					single = fmt.Sprintf("forallb (fun oc => match assoc (url_key (oc_tcond oc) (oc_name oc)) %s with Some l => GoStr.str_mem %s l && forallb (fun p => String.eqb p %s || negb (GoStr.str_mem p l)) %s | None => false end) (flat_map (occs %d %s %s %s []) %s)",
						c.URLMap(fed.Cap.Locs), c.S(obs.Calls[0].Service), c.S(obs.Calls[0].Service), c.Strs(cs.Fed.Priorities), len(parsed.Fragments)+2, c.FieldTypes(fed.Cap.Schema), frags, c.S(root), sels)
				}
				// realised insertion points the executor spawned, and per static path how many steps hang there
				stepsAt := map[string]int{}
				nroot := 0
				ndup := 0
				if plans, perr := fed.Plan(q.Text); perr == nil && one.OpIndex < len(plans) {
					// two steps at one insertion point that fetch the same selection from the same
					// service: every parent object there is fetched for twice
					seenStep := map[string]bool{}
					var walkSteps func(st *gateway.QueryPlanStep)
					walkSteps = func(st *gateway.QueryPlanStep) {
						for _, t := range st.Then {
							// the printed text, not interned names: steps that differ in a name only are different
							fr := []string{}
							for _, fd := range t.FragmentDefinitions {
								fr = append(fr, fd.Name+" on "+fd.TypeCondition+" "+selText(fd.SelectionSet))
							}
							sort.Strings(fr)
							key := strings.Join(t.InsertionPoint, "/") + "|" + locationOf(t.Queryer) + "|" + t.ParentType + "|" + selText(t.SelectionSet) + "|" + strings.Join(fr, ";")
							if seenStep[key] {
								ndup++
							}
							seenStep[key] = true
							if len(t.InsertionPoint) == 0 {
								nroot++
							} else {
								stepsAt[strings.Join(t.InsertionPoint, "/")]++
							}
							walkSteps(t)
						}
					}
					walkSteps(plans[one.OpIndex].RootStep)
				}
				sp := []string{}
				for _, s := range obs.Spawns {
					sp = append(sp, "("+c.S(s)+", "+c.S(staticPath(s))+")")
				}
				sa := []string{}
				for _, k := range sortedKeysInt(stepsAt) {
					sa = append(sa, fmt.Sprintf("(%s, %d)", c.S(k), stepsAt[k]))
				}
				core := fmt.Sprintf("c13_holds (%s) %d [%s] [%s] obs%d", single, nroot, strings.Join(sp, "; "), strings.Join(sa, "; "), id)
				oracle = fmt.Sprintf("%s && Nat.eqb %d 0", core, ndup)
				// the findings about occurrences planned one by one (guards 7 and 8) are about duplicate
				// steps only: they excuse nothing when the counts of calls and points are wrong
				guards = fmt.Sprintf("(if %s then %s else filter (fun g => negb (Nat.eqb g 7 || Nat.eqb g 8)) (%s))", core, guards, guards)
				if ndup > 0 {
					doc.Dist["plan:duplicate-steps"]++
				}
			case "C17":
				// the same operation in the document reduced to it and its fragments
				red := q.OpTexts[one.OpIndex] + "\n" + strings.Join(q.OpFrags[one.OpIndex], "\n")
				robs := fedRun(fed, red, "", opVals)
				c.Printf("Definition red%d := %s.\n", id, c.observed(robs, fed))
				unknown := fedRun(fed, q.Text, "NoSuchOperation", opVals)
				c.Printf("Definition unk%d := %s.\n", id, c.observed(unknown, fed))
				oracle = fmt.Sprintf("c17_holds exp%d obs%d red%d && (Nat.leb %d 1 || c17_unknown_name_holds unk%d)", id, id, id, len(parsed.Operations), id)
				// ... no name at all, with several operations to choose from, names nothing either
				if len(parsed.Operations) > 1 {
					missing := fedRun(fed, q.Text, "", opVals)
					c.Printf("Definition miss%d := %s.\n", id, c.observed(missing, fed))
					oracle += fmt.Sprintf(" && c17_unknown_name_holds miss%d", id)
					doc.Dist["operation-name:missing"]++
				}
				// ... and a name that is an operation's name only up to case names nothing
				folded := strings.ToUpper(opName)
				if folded == opName {
					folded = strings.ToLower(opName)
				}
				isName := false
				for _, o := range parsed.Operations {
					isName = isName || o.Name == folded
				}
				if !isName && folded != opName {
					unkc := fedRun(fed, q.Text, folded, opVals)
					c.Printf("Definition unkc%d := %s.\n", id, c.observed(unkc, fed))
					oracle += fmt.Sprintf(" && (Nat.leb %d 1 || c17_unknown_name_holds unkc%d)", len(parsed.Operations), id)
				}
				// the same QueryPlanList looked up again and again, as under the plan cache: every
				// operation of the document, last to first and back, against its fresh-plan answer
				if shared, perr := fed.Plan(q.Text); perr == nil && len(parsed.Operations) > 1 {
					order := []int{}
					for k := len(q.Ops) - 1; k >= 0; k-- {
						order = append(order, k)
					}
					order = append(order, one.OpIndex, 0)
					pairs := []string{}
					for _, k := range order {
						fresh := fedRun(fed, q.Text, q.Ops[k], q.ValsFor(k))
						again := fedRunOn(fed, shared, q.Text, q.Ops[k], q.ValsFor(k))
						pairs = append(pairs, "("+c.observed(fresh, fed)+", "+c.observed(again, fed)+")")
					}
					c.Printf("Definition reuse%d := [%s].\n", id, strings.Join(pairs, "; "))
					oracle += fmt.Sprintf(" && c17_reuse_holds reuse%d", id)
				}
			}
			c.Printf("Eval vm_compute in (\"%d\"%%string, %s, %s, %s).\n", id, model, oracle, guards)
			key, _ := json.Marshal(one)
			crosses := map[string]bool{}
			for _, cl := range obs.Calls {
				crosses[cl.Service] = true
			}
			for k, v := range q.Feats {
				doc.Dist["feature:"+k] += v
			}
			doc.Dist[fmt.Sprintf("class:%d", obs.Class)]++
			doc.Dist[fmt.Sprintf("calls:%s", bucket(len(obs.Calls)))]++
			obsj := map[string]interface{}{"class": obs.Class, "note": obs.Note, "errors": obs.NErrors, "calls": len(obs.Calls), "data": obs.Data}
			doc.Cases = append(doc.Cases, CaseInfo{ID: id, Kind: "request", Input: one, Observed: obsj, Nontrivial: len(crosses) >= 2 || nfaults > 0, Key: string(key)})
			id++
		}
	}
	if replay == nil && usesPoints[prop] {
		// the stitching functions on their own: generated selections, data and paths
		pointsCases(r, sh, doc, &id, 3*n/2, nil)
	}
	if err := sh.Flush(); err != nil {
		return err
	}
	doc.Shards = sh.Files
	return doc.Write(cfg.Out)
}

var usesPoints = map[string]bool{"C01": true, "C04": true, "C07": true, "C13": true}

// staticPath strips the realised parts (":index" and "#id") from a spawned insertion point
func staticPath(p string) string {
	parts := strings.Split(p, "/")
	for i, s := range parts {
		if h := strings.Index(s, "#"); h >= 0 {
			s = s[:h]
		}
		if c := strings.Index(s, ":"); c >= 0 {
			s = s[:c]
		}
		parts[i] = s
	}
	return strings.Join(parts, "/")
}

func sortedKeysInt(m map[string]int) []string {
	keys := make([]string, 0, len(m))
	for k := range m {
		keys = append(keys, k)
	}
	sort.Strings(keys)
	return keys
}

// pstep prints a plan step and its dependents as a Gw.Plan.pstep term
func (c *CoqFile) pstep(s *gateway.QueryPlanStep) string {
	loc := locationOf(s.Queryer)
	thens := []string{}
	for _, t := range s.Then {
		thens = append(thens, c.pstep(t))
	}
	return fmt.Sprintf("(PStep %s %s %s %s [%s])", c.S(loc), c.S(s.ParentType), c.Strs(s.InsertionPoint), c.Sels(s.SelectionSet), strings.Join(thens, "; "))
}

// ksels prints a flattened selection (graphql.ApplyFragments output) as Gw.Scrub.ksel terms
func (c *CoqFile) ksels(ss ast.SelectionSet) string {
	parts := []string{}
	for _, s := range ss {
		if f, ok := s.(*ast.Field); ok {
			parts = append(parts, fmt.Sprintf("KS %s %s %s", c.S(f.Alias), c.S(f.Name), c.ksels(f.SelectionSet)))
		}
	}
	return "[" + strings.Join(parts, "; ") + "]"
}

// FieldShapes prints, per "Type.field" of the schema, the named type it returns, whether it is a
// list and whether it is non-null (Gw.Fed.fshape)
func (c *CoqFile) FieldShapes(s *ast.Schema) string {
	names := make([]string, 0, len(s.Types))
	for n := range s.Types {
		names = append(names, n)
	}
	sort.Strings(names)
	parts := []string{}
	for _, n := range names {
		for _, f := range s.Types[n].Fields {
			parts = append(parts, fmt.Sprintf("(%s, (%s, (%s, %s)))", c.S(n+"."+f.Name), c.S(f.Type.Name()), coqBool(f.Type.Elem != nil), coqBool(f.Type.NonNull)))
		}
	}
	return c.Intern("fsh", "fshape", "["+strings.Join(parts, "; ")+"]")
}

// fstep prints a plan step with its fragment definitions and dependents as a Gw.Plan2.fstep term
func (c *CoqFile) fstep(s *gateway.QueryPlanStep) string {
	loc := locationOf(s.Queryer)
	thens := []string{}
	for _, t := range s.Then {
		thens = append(thens, c.fstep(t))
	}
	return fmt.Sprintf("(FStep %s %s %s %s %s [%s])", c.S(loc), c.S(s.ParentType), c.Strs(s.InsertionPoint), c.Sels(s.SelectionSet), c.Frags(s.FragmentDefinitions), strings.Join(thens, "; "))
}

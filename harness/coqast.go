package main

// Printers from gqlparser ASTs to the Gallina syntax of GW.Gql.Syntax.

import (
	"sort"
	"strings"

	"github.com/nautilus/gateway"
	"github.com/vektah/gqlparser/v2/ast"
)

func (c *CoqFile) Value(v *ast.Value) string {
	if v == nil {
		return "VNull"
	}
	switch v.Kind {
	case ast.Variable:
		return "(VVar " + c.S(v.Raw) + ")"
	case ast.IntValue:
		return "(VInt " + c.S(v.Raw) + ")"
	case ast.FloatValue:
		return "(VFloat " + c.S(v.Raw) + ")"
	case ast.StringValue, ast.BlockValue:
		return "(VStr " + c.S(v.Raw) + ")"
	case ast.BooleanValue:
		return "(VBool " + coqBool(v.Raw == "true") + ")"
	case ast.NullValue:
		return "VNull"
	case ast.EnumValue:
		return "(VEnum " + c.S(v.Raw) + ")"
	case ast.ListValue:
		parts := []string{}
		for _, ch := range v.Children {
			parts = append(parts, c.Value(ch.Value))
		}
		return "(VList [" + strings.Join(parts, "; ") + "])"
	case ast.ObjectValue:
		parts := []string{}
		for _, ch := range v.Children {
			parts = append(parts, "("+c.S(ch.Name)+", "+c.Value(ch.Value)+")")
		}
		return "(VObj [" + strings.Join(parts, "; ") + "])"
	}
	return "VNull"
}

func (c *CoqFile) Args(args ast.ArgumentList) string {
	parts := []string{}
	for _, a := range args {
		parts = append(parts, "("+c.S(a.Name)+", "+c.Value(a.Value)+")")
	}
	return "[" + strings.Join(parts, "; ") + "]"
}

func (c *CoqFile) Dirs(ds ast.DirectiveList) string {
	parts := []string{}
	for _, d := range ds {
		parts = append(parts, "{| d_name := "+c.S(d.Name)+"; d_args := "+c.Args(d.Arguments)+" |}")
	}
	return "[" + strings.Join(parts, "; ") + "]"
}

func (c *CoqFile) Sels(ss ast.SelectionSet) string {
	parts := []string{}
	for _, s := range ss {
		switch x := s.(type) {
		case *ast.Field:
			parts = append(parts, "Field "+c.S(x.Alias)+" "+c.S(x.Name)+" "+c.Args(x.Arguments)+" "+c.Dirs(x.Directives)+" "+c.Sels(x.SelectionSet))
		case *ast.InlineFragment:
			parts = append(parts, "Inline "+c.S(x.TypeCondition)+" "+c.Dirs(x.Directives)+" "+c.Sels(x.SelectionSet))
		case *ast.FragmentSpread:
			parts = append(parts, "Spread "+c.S(x.Name)+" "+c.Dirs(x.Directives))
		}
	}
	return "[" + strings.Join(parts, "; ") + "]"
}

func (c *CoqFile) Frags(fs ast.FragmentDefinitionList) string {
	parts := []string{}
	for _, f := range fs {
		parts = append(parts, "{| f_name := "+c.S(f.Name)+"; f_tcond := "+c.S(f.TypeCondition)+"; f_dirs := "+c.Dirs(f.Directives)+"; f_sel := "+c.Sels(f.SelectionSet)+" |}")
	}
	return "[" + strings.Join(parts, "; ") + "]"
}

// URLMap prints a FieldURLMap as an association list sorted by key
func (c *CoqFile) URLMap(m gateway.FieldURLMap) string {
	keys := make([]string, 0, len(m))
	for k := range m {
		keys = append(keys, k)
	}
	sort.Strings(keys)
	parts := []string{}
	for _, k := range keys {
		parts = append(parts, "("+c.S(k)+", "+c.Strs(m[k])+")")
	}
	return "[" + strings.Join(parts, "; ") + "]"
}

// FieldTypes prints "Type.field" -> named type of the field, for every field of the schema
func (c *CoqFile) FieldTypes(s *ast.Schema) string {
	names := make([]string, 0, len(s.Types))
	for n := range s.Types {
		if !strings.HasPrefix(n, "__") {
			names = append(names, n)
		}
	}
	sort.Strings(names)
	parts := []string{}
	for _, n := range names {
		for _, f := range s.Types[n].Fields {
			if strings.HasPrefix(f.Name, "__") {
				continue
			}
			parts = append(parts, "("+c.S(n+"."+f.Name)+", "+c.S(f.Type.Name())+")")
		}
	}
	return "[" + strings.Join(parts, "; ") + "]"
}

func opTypeName(o *ast.OperationDefinition) string {
	switch o.Operation {
	case ast.Mutation:
		return "Mutation"
	case ast.Subscription:
		return "Subscription"
	}
	return "Query"
}

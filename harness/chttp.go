package main

import (
	"bytes"
	"encoding/json"
	"fmt"
	"math/rand"
	"mime/multipart"
	"net/http"
	"net/http/httptest"
	"net/url"
	"sort"
	"strings"
	"sync"
	"time"

	"github.com/nautilus/gateway"
)

func init() {
	props["C15"] = func(cfg *runCfg) error { return runHTTP(cfg, "C15") }
	props["C16"] = func(cfg *runCfg) error { return runHTTP(cfg, "C16") }
}

const httpHeader = `From Coq Require Import String List ZArith.
Import ListNotations.
From GW Require Import Base.Res Base.Json Gw.Http Gw.HttpCheck.
Local Open Scope string_scope.
`

// one operation of a request, as JSON fields (nil = absent)
type hOp map[string]interface{}

type hReq struct {
	Method string            `json:"method"`
	CType  string            `json:"content_type"`
	Body   interface{}       `json:"body,omitempty"` // JSON value to post (ignored when Raw is set)
	Raw    *string           `json:"raw,omitempty"`  // raw body bytes
	Params map[string]string `json:"params,omitempty"`
	Ranks  []int             `json:"completion_ranks,omitempty"` // per operation: delay rank
	// Multipart: the body travels as the "operations" field of a multipart/form-data request whose
	// map names one uploaded file with an empty list of paths: nothing is injected, so the request
	// must be answered exactly as the plain JSON POST of the same body
	Multipart bool `json:"multipart,omitempty"`
}

type hCase struct {
	Fed     *FedSpec `json:"federation"`
	Salt    uint32   `json:"salt"`
	FaultPc int      `json:"fault_percent"`
	Req     hReq     `json:"request"`
	// the gateway runs with the automatic plan cache, and has already answered an ordinary request
	// (no hash) when the case's request arrives: what it answers must not depend on that history
	Cache bool `json:"automatic_plan_cache,omitempty"`
	Warm  bool `json:"warm_up_request,omitempty"`
}

type countingExec struct {
	inner gateway.Executor
	mu    sync.Mutex
	names map[string]int
	total int
}

func (e *countingExec) Execute(ctx *gateway.ExecutionContext) (map[string]interface{}, error) {
	e.mu.Lock()
	e.total++
	if ctx.Plan != nil && ctx.Plan.Operation != nil {
		e.names[ctx.Plan.Operation.Name]++
	}
	e.mu.Unlock()
	return e.inner.Execute(ctx)
}

func (e *countingExec) reset() {
	e.mu.Lock()
	e.names = map[string]int{}
	e.total = 0
	e.mu.Unlock()
}

type hObs struct {
	Panic  string      `json:"panic,omitempty"`
	Status int         `json:"status"`
	Body   interface{} `json:"body"`
	NotJS  bool        `json:"body_not_json,omitempty"`
	Ran    []bool      `json:"ran"`
	Calls  int         `json:"service_calls"`
}

func doHTTP(fed *Fed, ex *countingExec, rq *hReq, names []string) hObs {
	ex.reset()
	fed.Ctl.mu.Lock()
	fed.Ctl.Calls = nil
	fed.Ctl.mu.Unlock()
	var body []byte
	if rq.Raw != nil {
		body = []byte(*rq.Raw)
	} else if rq.Body != nil || rq.Method == http.MethodPost {
		body, _ = json.Marshal(rq.Body)
	}
	target := "/graphql"
	if len(rq.Params) > 0 {
		v := url.Values{}
		for k, x := range rq.Params {
			v.Set(k, x)
		}
		target += "?" + v.Encode()
	}
	req := httptest.NewRequest(rq.Method, target, bytes.NewReader(body))
	if rq.CType != "<none>" {
		req.Header.Set("Content-Type", rq.CType)
	}
	if rq.Multipart {
		var mp bytes.Buffer
		w := multipart.NewWriter(&mp)
		fw, _ := w.CreateFormField("operations")
		_, _ = fw.Write(body)
		fw, _ = w.CreateFormField("map")
		_, _ = fw.Write([]byte(`{"0": []}`))
		fw, _ = w.CreateFormFile("0", "f0.txt")
		_, _ = fw.Write([]byte("content"))
		_ = w.Close()
		req = httptest.NewRequest(rq.Method, target, &mp)
		req.Header.Set("Content-Type", w.FormDataContentType())
	}
	rec := httptest.NewRecorder()
	obs := hObs{}
	done := make(chan struct{})
	go func() {
		defer close(done)
		defer func() {
			if r := recover(); r != nil {
				obs.Panic = fmt.Sprint(r)
			}
		}()
		fed.GW.GraphQLHandler(rec, req)
	}()
	select {
	case <-done:
	case <-time.After(15 * time.Second):
		obs.Panic = "handler did not return within 15s"
		return obs
	}
	obs.Status = rec.Code
	var v interface{}
	if err := json.Unmarshal(rec.Body.Bytes(), &v); err != nil {
		obs.NotJS = true
		obs.Body = rec.Body.String()
	} else {
		obs.Body = v
	}
	ex.mu.Lock()
	for _, n := range names {
		obs.Ran = append(obs.Ran, n != "" && ex.names[n] > 0)
	}
	ex.mu.Unlock()
	fed.Ctl.mu.Lock()
	obs.Calls = len(fed.Ctl.Calls)
	fed.Ctl.mu.Unlock()
	return obs
}

var hBadQueries = []string{"{ nosuchfield }", "query Bad { hello { x } }", "{", "", "query Bad($v: Nope) { hello }", "mutation Bad { nothing }"}

func genOp(r *rand.Rand, fed *Fed, k int) (hOp, string, string) {
	op := hOp{}
	name := fmt.Sprintf("B%d", k)
	tag := "valid"
	kn := qKnobs{Depth: 1 + r.Intn(2), InlineFrags: true, Variables: true, Aliases: true, Typename: r.Intn(2) == 0, MaxFields: 3, Mutation: r.Intn(5) == 0}
	var q *GenQuery
	for try := 0; try < 5; try++ {
		q = genQuery(r, fed.Spec, fed.Store, kn)
		if _, err := fed.Plan(q.Text); err == nil {
			break
		}
	}
	text := strings.Replace(q.Text, "Op0", name, 1)
	switch p := r.Intn(100); {
	case p < 5:
		// introspection with the name in a variable: validation looks at the declared type only, the value is the client's
		op["query"] = fmt.Sprintf("query %s($n: String!) { __type(name: $n) { name kind } }", name)
		vals := []interface{}{"Query", "NoSuchType", float64(5), true, nil, []interface{}{"Query"}, map[string]interface{}{"a": "b"}}
		if k := r.Intn(len(vals) + 1); k < len(vals) {
			op["variables"] = map[string]interface{}{"n": vals[k]}
		}
		tag = "introspection-by-variable"
	case p < 62:
		op["query"] = text
		if len(q.Vars) > 0 {
			op["variables"] = q.Vars
		}
		if r.Intn(2) == 0 {
			op["operationName"] = name
		}
	case p < 72:
		op["query"] = hBadQueries[r.Intn(len(hBadQueries))]
		name = ""
		tag = "unplannable"
	case p < 78:
		name = ""
		tag = "no-query"
		if r.Intn(2) == 0 {
			op["query"] = ""
		}
	case p < 88:
		op["query"] = text
		op["extensions"] = map[string]interface{}{"persistedQuery": map[string]interface{}{"version": float64(1), "sha256Hash": fmt.Sprintf("h%d", r.Intn(3))}}
		tag = "query+hash"
	case p < 93:
		op["extensions"] = map[string]interface{}{"persistedQuery": map[string]interface{}{"version": float64(1), "sha256Hash": "onlyhash"}}
		name = ""
		tag = "hash-only"
	default:
		op["query"] = text
		op["operationName"] = "Other" // not the name of the only operation: ignored for single-operation documents
		tag = "foreign-operation-name"
	}
	return op, name, tag
}

var hWrongTypes = []func(op hOp){
	func(op hOp) { op["query"] = float64(1) },
	func(op hOp) { op["query"] = nil },
	func(op hOp) { op["variables"] = []interface{}{} },
	func(op hOp) { op["variables"] = "x" },
	func(op hOp) { op["variables"] = nil },
	func(op hOp) { op["operationName"] = map[string]interface{}{} },
	func(op hOp) { op["operationName"] = nil },
	func(op hOp) { op["extensions"] = float64(1) },
	func(op hOp) { op["extensions"] = nil },
	func(op hOp) { op["extensions"] = map[string]interface{}{"persistedQuery": "x"} },
	func(op hOp) { op["extensions"] = map[string]interface{}{"persistedQuery": nil} },
	func(op hOp) {
		op["extensions"] = map[string]interface{}{"persistedQuery": map[string]interface{}{"version": "1", "sha256Hash": "h"}}
	},
	func(op hOp) {
		op["extensions"] = map[string]interface{}{"persistedQuery": map[string]interface{}{"version": 1.5, "sha256Hash": "h"}}
	},
	func(op hOp) {
		op["extensions"] = map[string]interface{}{"persistedQuery": map[string]interface{}{"version": float64(2), "sha256Hash": float64(5)}}
	},
	func(op hOp) {
		op["extensions"] = map[string]interface{}{"persistedQuery": map[string]interface{}{"sha256Hash": nil}}
	},
	func(op hOp) { op["unknown"] = []interface{}{float64(1)} },
}

func opNames(body interface{}, names map[string]string) []string {
	// the operation name each operation of the body would run under (by query text)
	var ops []interface{}
	switch b := body.(type) {
	case []interface{}:
		ops = b
	case map[string]interface{}:
		ops = []interface{}{b}
	case hOp:
		ops = []interface{}{map[string]interface{}(b)}
	}
	out := []string{}
	for _, o := range ops {
		n := ""
		var m map[string]interface{}
		switch x := o.(type) {
		case map[string]interface{}:
			m = x
		case hOp:
			m = x
		}
		if m != nil {
			if q, ok := m["query"].(string); ok {
				n = names[q]
			}
		}
		out = append(out, n)
	}
	return out
}

// hasHash: the operation names a persisted query itself
func hasHash(op interface{}) bool {
	m, ok := op.(map[string]interface{})
	if !ok {
		return false
	}
	ext, _ := m["extensions"].(map[string]interface{})
	pq, _ := ext["persistedQuery"].(map[string]interface{})
	_, has := pq["sha256Hash"]
	return has
}

// withoutComputedHash drops, from a copy of a response body, the persistedQuery block the automatic
// plan cache adds to the answer of an operation that named no hash (the HTTP model is about the
// handler: it echoes the hashes the client sent)
func withoutComputedHash(body interface{}, ops []interface{}) interface{} {
	body = normJSON(body)
	strip := func(entry interface{}, op interface{}) {
		if m, ok := entry.(map[string]interface{}); ok && !hasHash(op) {
			delete(m, "extensions")
		}
	}
	switch b := body.(type) {
	case []interface{}:
		for i, e := range b {
			if i < len(ops) {
				strip(e, ops[i])
			}
		}
	case map[string]interface{}:
		if len(ops) == 1 {
			strip(b, ops[0])
		}
	}
	return body
}

func (c *CoqFile) hOutcome(single hObs) string {
	m, _ := single.Body.(map[string]interface{})
	if single.Status == 400 || single.Status == 422 || m == nil {
		return "PlanError"
	}
	d := c.JSON(m["data"])
	if errs, ok := m["errors"].([]interface{}); ok && len(errs) > 0 {
		return fmt.Sprintf("(ExecErr %s %d)", d, len(errs))
	}
	return "(ExecOk " + d + ")"
}

func (c *CoqFile) optJSONText(s string) string {
	var v interface{}
	if err := json.Unmarshal([]byte(s), &v); err != nil {
		return "None"
	}
	return "(Some " + c.JSON(v) + ")"
}

func normJSON(v interface{}) interface{} {
	b, _ := json.Marshal(v)
	var out interface{}
	_ = json.Unmarshal(b, &out)
	return out
}

func runHTTP(cfg *runCfg, prop string) error {
	n := cfg.N
	if n == 0 {
		n = 400
		if cfg.Tier == "thorough" {
			n = 6000
		}
	}
	r := rand.New(rand.NewSource(cfg.Seed))
	sh := NewSharder(cfg.Out, "cases_"+prop, httpHeader, 200_000)
	doc := &CasesDoc{Property: prop, Seed: cfg.Seed, Tier: cfg.Tier, Dist: map[string]int{}}
	var replay *hCase
	if cfg.Replay != "" {
		var rp struct {
			Case struct {
				Input hCase `json:"input"`
			} `json:"case"`
		}
		if err := readJSON(cfg.Replay, &rp); err != nil {
			return err
		}
		replay = &rp.Case.Input
		n = 1
	}
	id := 0
	for i := 0; i < n; i++ {
		if replay == nil && prop == "C15" && r.Intn(100) < 12 {
			// multipart layouts: the placement of files is C18's subject; here only "no crash, GraphQL-shaped, 4xx on error"
			g18 := &c18Gen{r: r}
			in, _ := g18.input()
			for k := range in.Ops {
				in.Ops[k].Nil = false
			}
			o18 := c18HTTPFull(in)
			c := sh.File()
			bodyObs := "None"
			if !o18.NotJS && o18.Panic == "" {
				bodyObs = "(Some " + c.JSON(o18.Body) + ")"
			}
			ran := []string{}
			for _, b := range o18.Ran {
				ran = append(ran, coqBool(b))
			}
			obsTerm := fmt.Sprintf("{| ob_panic := %s; ob_status := %d; ob_body := %s; ob_ran := [%s] |}", coqBool(o18.Panic != ""), o18.Status, bodyObs, strings.Join(ran, "; "))
			c.Printf("Eval vm_compute in (\"%d\"%%string, true, c15_holds (RPostJSON %s (Some (JObj []))) %s).\n", id, c.S("application/json"), obsTerm)
			key, _ := json.Marshal(in)
			doc.Cases = append(doc.Cases, CaseInfo{ID: id, Kind: "multipart", Input: map[string]interface{}{"multipart": in}, Observed: o18, Nontrivial: true, Key: "mp" + string(key)})
			doc.Dist["kind:multipart"]++
			doc.Dist[fmt.Sprintf("status:%d", o18.Status)]++
			id++
			continue
		}
		cs := replay
		if cs == nil {
			g := &fedGen{r: r, MultiHomePct: 20}
			cs = &hCase{Fed: g.Spec(), Salt: r.Uint32(), FaultPc: []int{0, 0, 0, 25}[r.Intn(4)]}
			if r.Intn(12) == 0 {
				cs.FaultPc = 100 // every service call fails: a batch may hold more failing operations than any fixed number of slots
			}
			if r.Intn(3) == 0 {
				cs.Cache = true
				cs.Warm = r.Intn(2) == 0
			}
		}
		st := genStore(rand.New(rand.NewSource(int64(cs.Salt))), cs.Fed, false)
		ex := &countingExec{inner: &gateway.ParallelExecutor{}, names: map[string]int{}}
		hopts := []gateway.Option{gateway.WithExecutor(ex)}
		if cs.Cache {
			hopts = append(hopts, gateway.WithAutomaticQueryPlanCache())
			doc.Dist["with-automatic-plan-cache"]++
		}
		fed, err := NewFed(cs.Fed, st, rand.New(rand.NewSource(int64(cs.Salt))), hopts...)
		if err != nil {
			return fmt.Errorf("federation %d does not build: %v", i, err)
		}
		if cs.Warm {
			// an ordinary request without a hash, answered before anything else
			wr := &hReq{Method: http.MethodPost, CType: "application/json", Body: map[string]interface{}{"query": "query Warm { hello }", "operationName": "Warm"}}
			_ = doHTTP(fed, ex, wr, []string{"Warm"})
			doc.Dist["with-warm-up-request"]++
		}
		fed.Ctl.Fault = func(c *Call) string { return faultFor(cs.Salt, cs.FaultPc, c) }
		names := map[string]string{} // query text -> operation name
		kind := "replay"
		if replay == nil {
			rq := hReq{Method: http.MethodPost, CType: "application/json"}
			p := r.Intn(100)
			if prop == "C16" {
				p = 20 + r.Intn(35) // batches only
			}
			switch {
			case p < 20:
				kind = "post-single"
				op, nm, tag := genOp(r, fed, 0)
				doc.Dist["op:"+tag]++
				if q, ok := op["query"].(string); ok {
					names[q] = nm
				}
				rq.Body = map[string]interface{}(op)
			case p < 55:
				kind = "post-batch"
				k := 1 + r.Intn(4)
				if r.Intn(15) == 0 {
					k = 0
				} else if r.Intn(8) == 0 {
					k = 11 + r.Intn(6) // more operations than any fixed-size buffer of ten holds
					doc.Dist["batch:more-than-ten"]++
				}
				ops := []interface{}{}
				for j := 0; j < k; j++ {
					if j > 0 && r.Intn(6) == 0 {
						ops = append(ops, ops[r.Intn(len(ops))]) // duplicate
						doc.Dist["op:duplicate"]++
						continue
					}
					op, nm, tag := genOp(r, fed, j)
					doc.Dist["op:"+tag]++
					if q, ok := op["query"].(string); ok {
						names[q] = nm
					}
					ops = append(ops, map[string]interface{}(op))
				}
				rq.Body = ops
				rq.Ranks = r.Perm(len(ops))
			case p < 72:
				kind = "post-malformed"
				switch r.Intn(12) {
				case 0:
					rq.Body = nil
				case 1:
					rq.Body = []interface{}{nil}
				case 2:
					rq.Body = float64(3)
				case 3:
					rq.Body = "query"
				case 4:
					rq.Body = true
				case 5:
					rq.Body = map[string]interface{}{}
				case 6:
					rq.Body = []interface{}{map[string]interface{}{}}
				case 7:
					raw := []string{"{", "", "[", "{\"query\": }", "nul", "\x00\x01", "[{\"query\":\"{hello}\"},]",
						// a complete operation followed by something else is not a JSON payload either
						"{\"query\":\"{ hello }\"}]", "{\"query\":\"{ hello }\"} x", "{\"query\":\"{ hello }\"}{\"query\":\"{ hello }\"}",
						"[{\"query\":\"{ hello }\"}] ]", "{\"query\":\"{ hello }\"}\n[{\"query\":"}[r.Intn(12)]
					rq.Raw = &raw
				default:
					op, nm, _ := genOp(r, fed, 0)
					if q, ok := op["query"].(string); ok {
						names[q] = nm
					}
					hWrongTypes[r.Intn(len(hWrongTypes))](op)
					if r.Intn(3) == 0 {
						op2, nm2, _ := genOp(r, fed, 1)
						if q, ok := op2["query"].(string); ok {
							names[q] = nm2
						}
						rq.Body = []interface{}{map[string]interface{}(op2), map[string]interface{}(op)}
					} else {
						rq.Body = map[string]interface{}(op)
					}
				}
			case p < 90:
				kind = "get"
				rq.Method = http.MethodGet
				rq.CType = "<none>"
				rq.Params = map[string]string{}
				op, nm, tag := genOp(r, fed, 0)
				doc.Dist["op:"+tag]++
				if q, ok := op["query"].(string); ok {
					rq.Params["query"] = q
					names[q] = nm
				}
				if v, ok := op["variables"]; ok {
					b, _ := json.Marshal(v)
					rq.Params["variables"] = string(b)
				}
				if v, ok := op["operationName"].(string); ok {
					rq.Params["operationName"] = v
				}
				if v, ok := op["extensions"]; ok {
					b, _ := json.Marshal(v)
					rq.Params["extensions"] = string(b)
				}
				switch r.Intn(10) {
				case 0:
					rq.Params["variables"] = []string{"[1]", "true", "{", "", "\"x\"", "null"}[r.Intn(6)]
				case 1:
					rq.Params["extensions"] = []string{"[1]", "{", "", "null", "{\"persistedQuery\":1}", "{\"persistedQuery\":{\"version\":\"x\"}}", "{}"}[r.Intn(7)]
				case 2:
					rq.Params["variables"] = []string{"true", "[1,2]", "{\"a\":"}[r.Intn(3)]
					rq.Params["extensions"] = "{}"
				}
			default:
				kind = "other-method"
				rq.Method = []string{http.MethodPut, http.MethodDelete, http.MethodPatch, http.MethodOptions, http.MethodHead}[r.Intn(5)]
				op, _, _ := genOp(r, fed, 0)
				rq.Body = map[string]interface{}(op)
			}
			if prop == "C15" && rq.Method == http.MethodPost && (kind == "post-single" || kind == "post-batch" || kind == "post-malformed") && r.Intn(6) == 0 {
				rq.Multipart = true
				kind += "-multipart"
			}
			if prop == "C16" {
				// a batched POST in the sense of the property: an accepted content type
				rq.CType = []string{"application/json", "application/json; charset=utf-8", "text/plain", "", "<none>"}[r.Intn(5)]
			} else if rq.Method == http.MethodPost && !rq.Multipart && r.Intn(4) == 0 {
				rq.CType = []string{"application/json; charset=utf-8", "text/plain", "", "<none>", "application/graphql", "text/html", " application/json", "application/json;charset=utf-8", "APPLICATION/JSON"}[r.Intn(9)]
			}
			if cs.Cache {
				// with the plan cache on, a hash the client made up would name whatever query came first under
				// it: the generated operations of these cases carry none
				dropExt := func(o interface{}) {
					if m, ok := o.(map[string]interface{}); ok {
						delete(m, "extensions")
					}
				}
				switch b := rq.Body.(type) {
				case []interface{}:
					for _, o := range b {
						dropExt(o)
					}
				default:
					dropExt(b)
				}
				delete(rq.Params, "extensions")
			}
			cs.Req = rq
		} else {
			// rebuild the name table from the replayed body
			collect := func(m map[string]interface{}) {
				if q, ok := m["query"].(string); ok {
					for k := 0; k < 8; k++ {
						if strings.Contains(q, fmt.Sprintf("B%d", k)) {
							names[q] = fmt.Sprintf("B%d", k)
						}
					}
				}
			}
			switch b := cs.Req.Body.(type) {
			case []interface{}:
				for _, o := range b {
					if m, ok := o.(map[string]interface{}); ok {
						collect(m)
					}
				}
			case map[string]interface{}:
				collect(b)
			}
			if q, ok := cs.Req.Params["query"]; ok {
				collect(map[string]interface{}{"query": q})
			}
		}
		rq := &cs.Req
		rq.Body = normJSON(rq.Body)
		// the operations of the request, as the handler will see them
		var opList []interface{}
		switch b := rq.Body.(type) {
		case []interface{}:
			opList = b
		case map[string]interface{}:
			opList = []interface{}{b}
		}
		if rq.Method == http.MethodGet {
			m := map[string]interface{}{}
			if q, ok := rq.Params["query"]; ok {
				m["query"] = q
			}
			opList = []interface{}{m}
		}
		runNames := opNames(opList, names)
		crumb := *cs
		crumb.Req = *rq
		cfg.Crumb(kind, &crumb)
		// single-operation baselines (also the outcomes handed to the model)
		singles := []hObs{}
		for _, o := range opList {
			m, ok := o.(map[string]interface{})
			if !ok {
				singles = append(singles, hObs{Status: 400})
				continue
			}
			if rq.Method == http.MethodGet {
				// alone = the same GET
				s := doHTTP(fed, ex, rq, runNames)
				singles = append(singles, s)
				continue
			}
			sr := &hReq{Method: http.MethodPost, CType: "application/json", Body: m}
			singles = append(singles, doHTTP(fed, ex, sr, opNames([]interface{}{m}, names)))
		}
		// completion order: operation j answers after rank[j] * 8ms
		if len(rq.Ranks) == len(opList) && len(opList) > 1 {
			rankOf := map[string]int{}
			for j, nme := range runNames {
				if nme != "" {
					rankOf[nme] = rq.Ranks[j]
				}
			}
			fed.Ctl.Delay = func(c *Call) time.Duration { return time.Duration(rankOf[c.OpName]) * 8 * time.Millisecond }
		}
		obs := doHTTP(fed, ex, rq, runNames)
		fed.Ctl.Delay = nil

		c := sh.File()
		var reqTerm string
		switch {
		case rq.Method == http.MethodGet:
			opt := func(k string, f func(string) string) string {
				if v, ok := rq.Params[k]; ok {
					return "(Some " + f(v) + ")"
				}
				return "None"
			}
			reqTerm = fmt.Sprintf("(RGet {| g_query := %s; g_vars := %s; g_name := %s; g_ext := %s |})",
				opt("query", c.S), opt("variables", c.optJSONText), opt("operationName", c.S), opt("extensions", c.optJSONText))
		case rq.Method == http.MethodPost:
			ct := rq.CType
			if ct == "<none>" {
				ct = ""
			}
			bodyTerm := "None"
			if rq.Raw != nil {
				bodyTerm = c.optJSONText(*rq.Raw)
			} else {
				bodyTerm = "(Some " + c.JSON(rq.Body) + ")"
			}
			reqTerm = fmt.Sprintf("(RPostJSON %s %s)", c.S(ct), bodyTerm)
		default:
			reqTerm = "ROther"
		}
		outs := []string{}
		singleBodies := []string{}
		for _, s := range singles {
			outs = append(outs, c.hOutcome(s))
			singleBodies = append(singleBodies, c.JSON(s.Body))
		}
		bodyObs := "None"
		rawObs := "None"
		if !obs.NotJS && obs.Panic == "" {
			rawObs = "(Some " + c.JSON(obs.Body) + ")"
			bodyObs = rawObs
			if cs.Cache {
				bodyObs = "(Some " + c.JSON(withoutComputedHash(obs.Body, opList)) + ")"
			}
		}
		ran := []string{}
		for _, b := range obs.Ran {
			ran = append(ran, coqBool(b))
		}
		if rq.Method != http.MethodGet && rq.Method != http.MethodPost {
			ran = nil
		}
		obsTerm := fmt.Sprintf("{| ob_panic := %s; ob_status := %d; ob_body := %s; ob_ran := [%s] |}", coqBool(obs.Panic != ""), obs.Status, bodyObs, strings.Join(ran, "; "))
		oracle := "c15_holds " + reqTerm + " " + obsTerm
		if prop == "C16" {
			// the batch against the single answers as they are, computed hashes included
			rawTerm := fmt.Sprintf("{| ob_panic := %s; ob_status := %d; ob_body := %s; ob_ran := [%s] |}", coqBool(obs.Panic != ""), obs.Status, rawObs, strings.Join(ran, "; "))
			oracle = fmt.Sprintf("c16_holds [%s] %s", strings.Join(singleBodies, "; "), rawTerm)
		}
		c.Printf("Eval vm_compute in (\"%d\"%%string, model_agrees %s [%s] %s, %s).\n", id, reqTerm, strings.Join(outs, "; "), obsTerm, oracle)
		key, _ := json.Marshal(cs)
		doc.Cases = append(doc.Cases, CaseInfo{ID: id, Kind: kind, Input: cs, Observed: obs,
			Nontrivial: len(opList) >= 2 || kind == "post-malformed" || kind == "get", Key: string(key)})
		doc.Dist["kind:"+kind]++
		doc.Dist[fmt.Sprintf("status:%d", obs.Status)]++
		if obs.Panic != "" {
			doc.Dist["panic"]++
		}
		if len(opList) > 1 {
			sorted := sort.IntsAreSorted(rq.Ranks)
			doc.Dist[fmt.Sprintf("batch:completion-in-order=%v", sorted)]++
		}
		id++
	}
	if err := sh.Flush(); err != nil {
		return err
	}
	doc.Shards = sh.Files
	return doc.Write(cfg.Out)
}

package main

// Shared data graph, in-process services that execute what they receive, and the reference
// (monolith) interpreter.

import (
	"context"
	"errors"
	"fmt"
	"math/rand"
	"net/http"
	"strconv"
	"sync"
	"time"

	"github.com/nautilus/graphql"
	"github.com/vektah/gqlparser/v2"
	"github.com/vektah/gqlparser/v2/ast"
)

// Obj is a node of the data graph. Field values: nil | string | int | bool | ref | []interface{} of ref/nil
type Obj struct {
	ID     string                 `json:"id"`
	Type   string                 `json:"type"`
	Fields map[string]interface{} `json:"fields"`
}

type ref string // id of another object

type Store struct {
	Objs  []*Obj                 `json:"objects"`
	Roots map[string]interface{} `json:"roots"` // "Query.q0" -> value
	byID  map[string]*Obj
}

func (s *Store) Get(id string) *Obj { return s.byID[id] }

var idAlphabet = []string{"1", "2", "a", "u:3", "x y", "é7", "T:9:z"}

func genStore(r *rand.Rand, f *FedSpec, hostileIDs bool) *Store {
	st := &Store{Roots: map[string]interface{}{}, byID: map[string]*Obj{}}
	perType := map[string][]*Obj{}
	n := 0
	for _, t := range f.Types {
		if t.Kind != "OBJECT" {
			continue
		}
		k := 1 + r.Intn(3)
		for i := 0; i < k; i++ {
			id := fmt.Sprintf("%s%d", t.Name[:1], n)
			if hostileIDs && r.Intn(3) == 0 {
				id = fmt.Sprintf("%s%d%s", t.Name[:1], n, idAlphabet[r.Intn(len(idAlphabet))])
			}
			n++
			o := &Obj{ID: id, Type: t.Name, Fields: map[string]interface{}{}}
			st.Objs = append(st.Objs, o)
			st.byID[id] = o
			perType[t.Name] = append(perType[t.Name], o)
		}
	}
	implementers := func(name string) []*Obj {
		if t := f.Type(name); t != nil && t.Kind == "INTERFACE" {
			var out []*Obj
			for _, c := range f.Types {
				if c.Kind == "OBJECT" && contains(c.Ifaces, name) {
					out = append(out, perType[c.Name]...)
				}
			}
			return out
		}
		return perType[name]
	}
	value := func(fl *FieldSpec) interface{} {
		t := fl.Type
		if scalarNames[t.Named] {
			if !t.NonNull && r.Intn(6) == 0 {
				return nil
			}
			switch t.Named {
			case "Int":
				return r.Intn(100)
			case "Boolean":
				return r.Intn(2) == 0
			default:
				return []string{"v", "w w", "", "ü"}[r.Intn(4)] + fmt.Sprint(r.Intn(50))
			}
		}
		cands := implementers(t.Named)
		if t.List {
			if !t.NonNull && r.Intn(8) == 0 {
				return nil
			}
			if len(cands) == 0 {
				return []interface{}{}
			}
			k := r.Intn(4)
			if r.Intn(12) == 0 {
				k = 6 + r.Intn(6)
			}
			l := make([]interface{}, 0, k)
			for i := 0; i < k; i++ {
				l = append(l, ref(cands[r.Intn(len(cands))].ID))
			}
			return l
		}
		if len(cands) == 0 || (!t.NonNull && r.Intn(5) == 0) {
			return nil
		}
		return ref(cands[r.Intn(len(cands))].ID)
	}
	for _, t := range f.Types {
		switch t.Kind {
		case "OBJECT":
			for _, o := range perType[t.Name] {
				for _, fl := range t.Fields {
					o.Fields[fl.Name] = value(fl)
				}
			}
		case "ROOT":
			for _, fl := range t.Fields {
				if fl.Name == "hello" || len(fl.Args) > 0 && scalarNames[fl.Type.Named] {
					continue
				}
				st.Roots[t.Name+"."+fl.Name] = value(fl)
			}
		}
	}
	return st
}

// ---------------------------------------------------------------------------------------------
// interpreter shared by the services (own schema) and the reference (merged schema)

type interp struct {
	schema *ast.Schema
	store  *Store
	doc    *ast.QueryDocument
	vars   map[string]interface{}
	// effect counter for mutations
	onMutation func(field string)
}

func typeMatches(schema *ast.Schema, cond string, runtime string) bool {
	if cond == "" || cond == runtime {
		return true
	}
	for _, d := range schema.PossibleTypes[cond] {
		if d.Name == runtime {
			return true
		}
	}
	return false
}

func skipped(dirs ast.DirectiveList, vars map[string]interface{}) bool {
	for _, d := range dirs {
		if d.Name == "skip" || d.Name == "include" {
			a := d.Arguments.ForName("if")
			if a == nil {
				continue
			}
			v, _ := a.Value.Value(vars)
			b, _ := v.(bool)
			if d.Name == "skip" && b {
				return true
			}
			if d.Name == "include" && !b {
				return true
			}
		}
	}
	return false
}

type collected struct {
	key    string
	fields []*ast.Field
}

func (in *interp) collect(ss ast.SelectionSet, rt string, acc *[]*collected, visited map[string]bool) {
	for _, sel := range ss {
		switch sel := sel.(type) {
		case *ast.Field:
			if skipped(sel.Directives, in.vars) {
				continue
			}
			key := sel.Alias
			if key == "" {
				key = sel.Name
			}
			var c *collected
			for _, x := range *acc {
				if x.key == key {
					c = x
				}
			}
			if c == nil {
				c = &collected{key: key}
				*acc = append(*acc, c)
			}
			c.fields = append(c.fields, sel)
		case *ast.InlineFragment:
			if skipped(sel.Directives, in.vars) || !typeMatches(in.schema, sel.TypeCondition, rt) {
				continue
			}
			in.collect(sel.SelectionSet, rt, acc, visited)
		case *ast.FragmentSpread:
			if skipped(sel.Directives, in.vars) || visited[sel.Name] {
				continue
			}
			visited[sel.Name] = true
			def := in.doc.Fragments.ForName(sel.Name)
			if def == nil || !typeMatches(in.schema, def.TypeCondition, rt) {
				continue
			}
			in.collect(def.SelectionSet, rt, acc, visited)
		}
	}
}

// exec evaluates a selection set on an object (nil obj = root of the given root type)
func (in *interp) exec(ss ast.SelectionSet, obj *Obj, rt string) map[string]interface{} {
	acc := []*collected{}
	in.collect(ss, rt, &acc, map[string]bool{})
	out := map[string]interface{}{}
	for _, c := range acc {
		f := c.fields[0]
		if f.Name == "__typename" {
			out[c.key] = rt
			continue
		}
		var val interface{}
		switch {
		case obj == nil && f.Name == "node" && rt == "Query":
			idv, _ := f.Arguments.ForName("id").Value.Value(in.vars)
			if o := in.store.Get(fmt.Sprint(idv)); o != nil && in.schema.Types[o.Type] != nil {
				val = ref(o.ID)
			}
		case f.Arguments.ForName("x") != nil && f.Definition != nil && f.Definition.Type.NamedType == "String":
			v, _ := f.Arguments.ForName("x").Value.Value(in.vars)
			if v == nil {
				val = "x=null"
			} else {
				val = fmt.Sprintf("x=%v", v)
			}
		case f.Name == "hello":
			val = "x=null"
		case obj == nil:
			if rt == "Mutation" && in.onMutation != nil {
				in.onMutation(c.key) // one execution per response key
			}
			val = in.store.Roots[rt+"."+f.Name]
			if rt == "Mutation" {
				val = in.store.Roots["Mutation."+f.Name]
			}
		case f.Name == "id":
			val = obj.ID
		default:
			val = obj.Fields[f.Name]
		}
		var sub ast.SelectionSet
		for _, ff := range c.fields {
			sub = append(sub, ff.SelectionSet...)
		}
		out[c.key] = in.complete(sub, val)
	}
	return out
}

func (in *interp) complete(sub ast.SelectionSet, val interface{}) interface{} {
	switch v := val.(type) {
	case nil:
		return nil
	case ref:
		o := in.store.Get(string(v))
		if o == nil {
			return nil
		}
		return in.exec(sub, o, o.Type)
	case []interface{}:
		r := make([]interface{}, len(v))
		for i, e := range v {
			r[i] = in.complete(sub, e)
		}
		return r
	case int:
		return float64(v) // as a JSON decoder would deliver it
	default:
		return v
	}
}

// ---------------------------------------------------------------------------------------------

type Call struct {
	Service  string                 `json:"service"`
	Query    string                 `json:"query"`
	Vars     map[string]interface{} `json:"variables"`
	OpName   string                 `json:"operation_name"`
	Invalid  string                 `json:"invalid,omitempty"`
	CtxValue interface{}            `json:"ctx,omitempty"`
	Seq      int                    `json:"seq"`
	ViaMW    bool                   `json:"via_with_middlewares,omitempty"`
	ReqMWs   []int                  `json:"request_middlewares,omitempty"`
	Fault    string                 `json:"fault,omitempty"`
	Entries  int                    `json:"error_entries,omitempty"` // entries of the error list the fault answers with
}

// Fault kinds a controller can assign to a call
const (
	FaultNone      = ""
	FaultTransport = "transport"      // plain Go error, no data
	FaultPartial   = "errs+partial"   // graphql errors plus the data
	FaultErrsNull  = "errs+null"      // graphql errors, no data
	FaultNodeNull  = "node:null"      // {"node": null}
	FaultWrong     = "wrong-shape"    // a string where an object is expected
	FaultErrsNode  = "errs+node:null" // graphql errors together with {"node": null}
	FaultBadElem   = "bad-element"    // a well-formed reply, except that the list a dependent step joins onto ends in a string
)

type Controller struct {
	mu    sync.Mutex
	Calls []Call
	// Fault decides, for the n-th call (in arrival order) to a service, what happens
	Fault func(c *Call) string
	// Gate, when set, is called (outside the lock) after the call is logged and before it is answered
	Gate func(c *Call)
	// Delay, when set, makes the service wait (or until the context is done) before answering
	Delay       func(c *Call) time.Duration
	Effects     map[string]int
	Outstanding int
	MaxOut      int
	// BadKeys: per service, the root response key whose list a dependent step joins onto (FaultBadElem)
	BadKeys map[string]string
}

type ctxKey struct{}

type Service struct {
	Name   string
	Schema *ast.Schema
	Store  *Store
	Ctl    *Controller
	// InPlace, when set, makes WithMiddlewares keep the list on the service itself (see mwState)
	InPlace *mwState
}

// svcMW is what WithMiddlewares returns: the same service, remembering the request middlewares
type svcMW struct {
	*Service
	mws  []graphql.NetworkMiddleware
	live bool // the list is the one last set on the service itself (InPlace)
}

// mwState is the middleware list of a service that keeps it on itself, as the stock queryers of
// nautilus/graphql do (SingleRequestQueryer.WithMiddlewares: q.mware = mwares; return q): every
// execution of a plan that holds this queryer sets it, and sends with whatever is set by then
type mwState struct {
	mu  sync.Mutex
	cur []graphql.NetworkMiddleware
	rnd *rand.Rand
}

// WithMiddlewares makes every Service a graphql.QueryerWithMiddlewares
func (s *Service) WithMiddlewares(mws []graphql.NetworkMiddleware) graphql.Queryer {
	if s.InPlace != nil {
		s.InPlace.mu.Lock()
		s.InPlace.cur = mws
		d := time.Duration(s.InPlace.rnd.Intn(400)) * time.Microsecond
		s.InPlace.mu.Unlock()
		if mws != nil {
			time.Sleep(d) // what lies between setting the list and sending: serialising the variables, say
		}
		return &svcMW{Service: s, live: true}
	}
	return &svcMW{Service: s, mws: mws}
}

func (s *svcMW) Query(ctx context.Context, in *graphql.QueryInput, recv interface{}) error {
	if s.live {
		s.Service.InPlace.mu.Lock()
		s.mws = s.Service.InPlace.cur
		s.Service.InPlace.mu.Unlock()
	}
	// apply the middlewares to a request of our own and read back which ones ran, in order
	req, _ := http.NewRequest(http.MethodPost, "http://"+s.Name, nil)
	for _, m := range s.mws {
		_ = m(req)
	}
	ids := []int{}
	for _, v := range req.Header.Values("X-Mw") {
		n, _ := strconv.Atoi(v)
		ids = append(ids, n)
	}
	return s.Service.query(ctx, in, recv, true, ids)
}

// faultEntries is the number of entries of the error list a faulty call answers with: a service
// reports one to three GraphQL errors at once (the gateway has to keep every one of them); the other
// kinds of failure are one error each
func faultEntries(fault string, c *Call) int {
	switch fault {
	case FaultNone:
		return 0
	case FaultPartial, FaultErrsNull, FaultErrsNode:
		return 1 + (len(c.Query)+len(c.Service)+len(c.Vars))%3
	}
	return 1
}

func errList(msg string, n int) graphql.ErrorList {
	l := graphql.ErrorList{}
	for i := 0; i < n; i++ {
		l = append(l, &graphql.Error{Message: fmt.Sprintf("%s (%d of %d)", msg, i+1, n)})
	}
	return l
}

func (s *Service) Query(ctx context.Context, in *graphql.QueryInput, recv interface{}) error {
	return s.query(ctx, in, recv, false, nil)
}

func (s *Service) query(ctx context.Context, in *graphql.QueryInput, recv interface{}, viaMW bool, mwIDs []int) error {
	c := Call{Service: s.Name, Query: in.Query, Vars: in.Variables, OpName: in.OperationName, CtxValue: ctx.Value(ctxKey{}), ViaMW: viaMW, ReqMWs: mwIDs}
	doc, errs := gqlparser.LoadQuery(s.Schema, in.Query)
	if errs != nil {
		c.Invalid = errs.Error()
	}
	ctl := s.Ctl
	ctl.mu.Lock()
	c.Seq = len(ctl.Calls)
	fault := FaultNone
	if ctl.Fault != nil {
		fault = ctl.Fault(&c)
	}
	c.Fault = fault
	c.Entries = faultEntries(fault, &c)
	ctl.Calls = append(ctl.Calls, c)
	ctl.Outstanding++
	if ctl.Outstanding > ctl.MaxOut {
		ctl.MaxOut = ctl.Outstanding
	}
	gate := ctl.Gate
	ctl.mu.Unlock()
	defer func() {
		ctl.mu.Lock()
		ctl.Outstanding--
		ctl.mu.Unlock()
	}()
	if gate != nil {
		gate(&c)
	}
	if ctl.Delay != nil {
		if d := ctl.Delay(&c); d > 0 {
			select {
			case <-time.After(d):
			case <-ctx.Done():
			}
		}
	}
	// like a network queryer, give up when the request's context is done
	if err := ctx.Err(); err != nil {
		return err
	}
	if c.Invalid != "" {
		return fmt.Errorf("service %s: invalid query: %s", s.Name, c.Invalid)
	}
	out := recv.(*map[string]interface{})
	switch fault {
	case FaultTransport:
		return errors.New("transport failure at " + s.Name)
	case FaultErrsNull:
		return errList("service error at "+s.Name, c.Entries)
	case FaultNodeNull:
		*out = map[string]interface{}{"node": nil}
		return nil
	case FaultWrong:
		*out = map[string]interface{}{"node": "oops"}
		return nil
	case FaultErrsNode:
		*out = map[string]interface{}{"node": nil}
		return errList("no such object at "+s.Name, c.Entries)
	}
	op := doc.Operations[0]
	rt := "Query"
	if op.Operation == ast.Mutation {
		rt = "Mutation"
	}
	it := &interp{schema: s.Schema, store: s.Store, doc: doc, vars: withDefaults(op, in.Variables), onMutation: func(f string) {
		ctl.mu.Lock()
		if ctl.Effects == nil {
			ctl.Effects = map[string]int{}
		}
		ctl.Effects[s.Name+"."+f]++
		ctl.mu.Unlock()
	}}
	*out = it.exec(op.SelectionSet, nil, rt)
	if fault == FaultPartial {
		return errList("partial failure at "+s.Name, c.Entries)
	}
	if fault == FaultBadElem {
		injected := false
		if l, ok := (*out)[ctl.BadKeys[s.Name]].([]interface{}); ok && len(l) > 0 {
			(*out)[ctl.BadKeys[s.Name]] = append(append([]interface{}{}, l...), "oops")
			injected = true
		}
		if !injected {
			// nothing to spoil in this reply: the call did not fail after all
			ctl.mu.Lock()
			if c.Seq < len(ctl.Calls) {
				ctl.Calls[c.Seq].Fault, ctl.Calls[c.Seq].Entries = "", 0
			}
			ctl.mu.Unlock()
		}
	}
	return nil
}

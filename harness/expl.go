package main

import (
	"context"
	"encoding/json"
	"fmt"
	"math/rand"
	"os"
	"reflect"
	"regexp"
	"sort"
	"strings"
	"time"

	"github.com/vektah/gqlparser/v2"
)

func init() { props["EXPL"] = runEXPL }

var reNum = regexp.MustCompile(`[0-9]+`)

// EXPL: exploratory differential run gateway vs monolith; prints failure categories
func runEXPL(cfg *runCfg) error {
	n := cfg.N
	if n == 0 {
		n = 500
	}
	r := rand.New(rand.NewSource(cfg.Seed))
	cats := map[string]int{}
	ex := map[string]string{}
	ok := 0
	full := os.Getenv("EXPL_KNOBS") == "full"
	for i := 0; i < n; i++ {
		g := &fedGen{r: r, MultiHomePct: []int{0, 20, 45}[r.Intn(3)], Iface: full}
		spec := g.Spec()
		salt := r.Uint32()
		st := genStore(rand.New(rand.NewSource(int64(salt))), spec, full)
		fed, err := NewFed(spec, st, rand.New(rand.NewSource(int64(salt))))
		if err != nil {
			return err
		}
		for qi := 0; qi < 3; qi++ {
			kn := qKnobs{Depth: 1 + r.Intn(3), InlineFrags: true, Untyped: true, Directives: true, Variables: true, Aliases: true, AliasShadow: true,
				Typename: true, RepeatKeys: true, NodeField: true, Mutation: true, MaxFields: 4}
			if full {
				kn.NamedFrags = true
				kn.DirLeafOnly = true
				kn.NoNestedFrag = os.Getenv("EXPL_NONEST") != ""
			}
			q := genQuery(r, spec, st, kn)
			if _, verr := gqlparser.LoadQuery(fed.Cap.Schema, q.Text); verr != nil {
				continue
			}
			type res struct {
				d      map[string]interface{}
				pe, ee error
			}
			ch := make(chan res, 1)
			go func() {
				defer func() {
					if p := recover(); p != nil {
						ch <- res{pe: fmt.Errorf("PANIC %v", p)}
					}
				}()
				d, pe, ee := fed.Run(context.Background(), q.Text, q.OpName, q.Vars)
				ch <- res{d, pe, ee}
			}()
			var rs res
			select {
			case rs = <-ch:
			case <-time.After(5 * time.Second):
				rs.pe = fmt.Errorf("HANG")
			}
			mono, merr := fed.Mono(q.Text, q.OpName, q.Vars)
			cat := ""
			switch {
			case rs.pe != nil:
				cat = "plan: " + reNum.ReplaceAllString(rs.pe.Error(), "N")
			case rs.ee != nil:
				cat = "exec: " + reNum.ReplaceAllString(rs.ee.Error(), "N")
			case merr != nil:
				cat = "mono: " + merr.Error()
			case !reflect.DeepEqual(normJSON(rs.d), normJSON(mono)):
				cat = "data differs: " + diffKind(normJSON(rs.d), normJSON(mono), "")
			}
			// invalid outbound queries
			for _, c := range fed.Ctl.Calls {
				if c.Invalid != "" && cat == "" {
					cat = "invalid outbound: " + reNum.ReplaceAllString(c.Invalid, "N")
				}
			}
			fed.Ctl.Calls = nil
			if cat == "" {
				ok++
				continue
			}
			if len(cat) > 110 {
				cat = cat[:110]
			}
			cats[cat]++
			if d := os.Getenv("EXPL_DUMP"); d != "" && strings.Contains(cat, d) {
				b, _ := json.Marshal(map[string]interface{}{"case": map[string]interface{}{"input": map[string]interface{}{"federation": spec, "salt": salt, "hostile": full}}, "query": q})
				_ = os.WriteFile("/tmp/expl_dump.json", b, 0o644)
			}
			if _, seen := ex[cat]; !seen || len(q.Text) < len(ex[cat]) {
				gd, _ := json.Marshal(rs.d)
				md, _ := json.Marshal(mono)
				v, _ := json.Marshal(q.Vars)
				ex[cat] = fmt.Sprintf("%s\n      vars=%s op=%q prio=%v\n      gw  =%s\n      mono=%s", q.Text, v, q.OpName, spec.Priorities, gd, md)
			}
		}
	}
	fmt.Println("ok:", ok)
	keys := []string{}
	for k := range cats {
		keys = append(keys, k)
	}
	sort.Slice(keys, func(i, j int) bool { return cats[keys[i]] > cats[keys[j]] })
	for _, k := range keys {
		e := ex[k]
		if len(e) > 900 {
			e = e[:900]
		}
		fmt.Printf("%4d  %s\n      %s\n", cats[k], k, strings.ReplaceAll(e, "\n", "\n"))
	}
	return nil
}

func diffKind(g, m interface{}, path string) string {
	gm, ok1 := g.(map[string]interface{})
	mm, ok2 := m.(map[string]interface{})
	if ok1 && ok2 {
		for k := range gm {
			if _, ok := mm[k]; !ok {
				return "extra key " + k
			}
		}
		for k := range mm {
			if _, ok := gm[k]; !ok {
				return "missing key " + k
			}
		}
		for k := range gm {
			if d := diffKind(gm[k], mm[k], path+"."+k); d != "" {
				return d
			}
		}
		return ""
	}
	gl, ok1 := g.([]interface{})
	ml, ok2 := m.([]interface{})
	if ok1 && ok2 {
		if len(gl) != len(ml) {
			return "list length"
		}
		for i := range gl {
			if d := diffKind(gl[i], ml[i], path); d != "" {
				return d
			}
		}
		return ""
	}
	if !reflect.DeepEqual(g, m) {
		return fmt.Sprintf("value %T vs %T", g, m)
	}
	return ""
}

"""Per-property texts used in the evidence (rule for non-trivial/distinct cases, assumptions)."""


def register(vc):
    vc.RULES.update({
        "C18": "corpus of previously failing inputs first, then PRNG(seed)-generated multipart requests: 1-3 operations "
               "(single/batch), variable trees of depth 1-4 (objects, lists, nulls, scalars, nil maps, nil operations), "
               "1-2 files with 0-3 map paths each, ~60% of paths valid and the rest mutated (index off by one / negative / "
               "signed / zero-padded / non-numeric / overflowing, path past the target, container or non-null target, "
               "missing or extra batch index, bad prefix, empty segments, duplicates); each input is run through "
               "injectFile directly and ~1/3 also through GraphQLHandler as a real multipart POST with a recording "
               "Executor. Non-trivial = at least one path and (tree depth >= 2 or batch mode); distinct = distinct "
               "(route, input) JSON.",
        "C20": "PRNG(seed)-generated federations (1-4 services, 2-4 object types + optional interface, 0-70% multi-homed fields, "
               "priorities absent / partial / total / naming unknown services / empty, gateway options passed in a random order) "
               "x generated valid queries (aliases, repeated keys, typed and untyped inline fragments, named fragments, directives, "
               "variables, __typename, node(id), mutations); the plan of each operation is read back as (response path, field, "
               "service) triples. Non-trivial = the plan touches two or more locations, or the federation has multi-homed fields "
               "and the plan has more than one field; distinct = distinct (federation, query, operation) JSON.",
    })
    vc.ASSUMPTIONS.update({
        "C20": ["the routing table (FieldURLMap) and merged schema are read through a wrapping planner installed with WithPlanner",
                "route is an abstraction of groupSelectionSet/extractSelection to the location assignment (the full planner model is Gw/Plan.v when present)",
                "gqlparser is the validity oracle for generated queries"],
        "C18": ["encoding/json and mime/multipart decode the posted operations/map as Go documents them (inputs are compared after decoding)",
                "Go map iteration order over the files of one request is arbitrary: for two files both orders are accepted by the correspondence",
                "the file value is opaque (graphql.Upload is neither a map nor a slice)"],
    })

"""Per-property texts used in the evidence (rule for non-trivial/distinct cases, assumptions)."""


def register(vc):
    vc.RULES.update({
        "C18": "corpus of previously failing inputs first, then PRNG(seed)-generated multipart requests: 1-3 operations "
               "(single/batch), variable trees of depth 1-4 (objects, lists, nulls, scalars, nil maps, nil operations), "
               "1-2 files with 0-3 map paths each, ~60% of paths valid and the rest mutated (index off by one / negative / "
               "signed / zero-padded / non-numeric / overflowing, path past the target, container or non-null target, "
               "missing or extra batch index, bad prefix, empty segments, duplicates); each input is run through "
               "injectFile directly and ~1/3 also through GraphQLHandler as a real multipart POST with a recording "
               "Executor. Non-trivial = at least one path and (tree depth >= 2 or batch mode); distinct = distinct "
               "(route, input) JSON.",
        "C20": "PRNG(seed)-generated federations (1-4 services, 2-4 object types + optional interface, 0-70% multi-homed fields, "
               "priorities absent / partial / total / naming unknown services / empty, gateway options passed in a random order) "
               "x generated valid queries (aliases, repeated keys, typed and untyped inline fragments, named fragments, directives, "
               "variables, __typename, node(id), mutations); the plan of each operation is read back as (response path, field, "
               "service) triples. Non-trivial = the plan touches two or more locations, or the federation has multi-homed fields "
               "and the plan has more than one field; distinct = distinct (federation, query, operation) JSON.",
        "C09": "corpus of the schema pairs that crashed or were silently merged on the pinned tree, then PRNG(seed)-generated lists of "
               "2-4 service schemas drawn from a universe of objects, interfaces, inputs, enums, unions, scalars and directive "
               "definitions (objects with random field subsets and field orders); ~75% of the lists get ONE single-point "
               "incompatibility injected into one service's copy of a shared name (field type, nullability, element nullability, "
               "argument added/renamed/retyped, default value incl. list defaults and one-sided defaults, enum value "
               "added/renamed/removed, union member removed/replaced, interface/input field added/renamed, directive location or "
               "argument, kind changed); every list is merged by gateway.New in 4 service orders. Non-trivial = at least two "
               "services sharing a name; distinct = distinct case JSON.",
        "C10": "same generator as C09 with ~35% injected incompatibilities; each list is merged in the identity, reverse and two "
               "random orders of its services (fresh schema objects per order; Go map order varies per run) and the outcomes and "
               "merged type systems are compared across orders. Non-trivial = at least two services sharing a name.",
        "C03": "same generator as C09 with ~8% injected incompatibilities; for every successful merge the merged schema, possible "
               "types, implements and the routing table are read back through a wrapping planner. Non-trivial = at least two "
               "services sharing a name.",
        "C19": "PRNG(seed)-generated federations and valid queries executed through Gateway.GetPlans+Execute with 0-5 recording "
               "middlewares of both kinds (response middlewares snapshot the data they are handed, optionally set a key, ~1/6 fail; "
               "request middlewares tag an http.Request), registered through one or two WithMiddlewares options interleaved at random "
               "with the other options; services implement QueryerWithMiddlewares and report which request middlewares each call "
               "carried; service faults (transport error, errors+partial data, errors+null) assigned to 0/15/40/100% of the calls by a "
               "seeded hash. Non-trivial = at least two middlewares and at least one outbound call; distinct = distinct case JSON.",
        "C15": "PRNG(seed)-generated federations behind Gateway.GraphQLHandler under httptest: single POSTs, batches of 0-4 operations "
               "(valid / unplannable / empty / hash-only / query+hash / duplicates, ~25% of runs with service faults), malformed POST "
               "bodies (null, [null], scalars, {}, [{}], every wrong JSON kind at every field of the operation object incl. extensions."
               "persistedQuery, raw non-JSON bytes), content types (json with parameters, text/plain, empty, absent, unknown, leading "
               "space, upper case), GETs with valid and invalid variables / extensions parameters, other methods. Each operation is "
               "also sent alone to obtain its own outcome. Non-trivial = two or more operations, or a malformed body, or a GET.",
        "C16": "the batch requests of the C15 generator (0-4 operations, duplicates, keyed and un-keyed operations mixed, failing and "
               "succeeding ones mixed); service replies are delayed by rank so that the operations complete in a chosen permutation; "
               "every operation is also sent alone. Non-trivial = two or more operations.",
        "C12": "fixed histories first (a rejected query sent with a hash and then the hash again; idle longer than the TTL; "
               "sha256-keyed lookups), then PRNG(seed)-generated histories of 2-9 events over {query only, query+hash, hash only, "
               "hash = sha256 of a text, unknown hash, neither, idle > 3 TTL} on four texts (one rejected by the planner), every hash "
               "always paired with the same text, each run on its own AutomaticQueryPlanCache (TTL 120 ms) through Retrieve with a "
               "planner that tags its plans with the text; plus 48 concurrent bursts (2-8 simultaneous first lookups of one key, "
               "some hash-only, then the entry used every 0.36 TTL for 3 TTLs: it must stay cached whichever sweepers the burst "
               "started). Non-trivial = three or more events, or a burst.",
        "C05": "hand-made plans (1-3, sometimes 11-14 root steps; depth 0-2; list fan-outs 0-3, sometimes 8-37; ~12% of steps fail "
               "with a transport error, ~12% with errors plus partial data) executed by ParallelExecutor.Execute under three "
               "schedules each (service replies delayed 0-1.5 ms at random, a Logger that yields or sleeps at the executor's log call "
               "sites Pushing Result / Spawn / Inserting result / Done with probability 0/30/70%); the realised call tree is "
               "computed by the harness; calls, stitching order (from the collector's own log lines) and errors are recorded. "
               "Non-trivial = three or more realised calls; distinct = distinct (plan, schedules) JSON.",
        "C06": "as C05; additionally per run: calls outstanding at return, calls started after return, response re-read 15 ms after "
               "return, goroutine census before/after; first case = one parent with 40 failing children (the shape that dead-locked "
               "the pinned tree).",
    })
    vc.ASSUMPTIONS.update({
        "C05": ["the LTS is the semantics of the regenerated skeleton (hand step, tested by the trace checks of this run)",
                "Go channels are FIFO; sync.WaitGroup.Wait returns exactly when the counter is zero",
                "data races are a property of the Go runtime: -race is used in the thorough tier only as supporting evidence"],
        "C06": ["as C05", "goroutine census and the 15 ms settle delay are supporting observations of the runtime, not part of the proof"],
        "C12": ["planner and sha256 are parameters of the theorems (sha256 hex is never empty); the correspondence uses the real sha256",
                "real time enters only through: requests of a burst are much closer than the TTL; an idle period is longer than 3 TTLs",
                "sync.Map Load / LoadOrStore / Store are atomic (the concurrent theorem interleaves exactly these steps); the timer goroutine is modelled as a sweep that may run at any time"],
        "C15": ["bytes -> JSON value is encoding/json's (inputs are JSON values; raw byte bodies enter the model as 'not valid JSON'); multipart layouts are covered by C18",
                "JSON object keys are matched exactly (encoding/json also accepts other letter cases; not generated)",
                "what planning and execution of one operation yield is an input of the handler model, observed by sending the operation alone"],
        "C16": ["completion orders are forced by delaying service replies (8 ms per rank), not by a scheduler hook",
                "as C15"],
        "C19": ["the executor's (data, error) is recorded by a wrapping Executor; the data left by the built-in scrubber is what the first response middleware is handed",
                "a failure of the built-in scrubber itself (a defect tracked under C04) ends the request before any user middleware: such runs are only checked for the request middlewares",
                "the gateway's own queryer (node / introspection) is not a network queryer and takes no request middlewares"],
        "C09": ["source schemas are what gqlparser's LoadSchema accepts (no duplicate field/argument/enum value/member names); the check evaluates wf_defb on every generated source",
                "map iteration order of mergeSchemas only selects which error is reported; error texts are not compared",
                "applied-directive comparison (mergeDirectiveListsEqual) is modelled but not part of the property's list of incompatibilities"],
        "C10": ["as C09", "descriptions are excluded from the comparison, as the property says"],
        "C03": ["as C09", "validity of the merged schema beyond reference-closure is gqlparser's (the harness re-validates queries, not modelled)"],
        "C20": ["the routing table (FieldURLMap) and merged schema are read through a wrapping planner installed with WithPlanner",
                "route is an abstraction of groupSelectionSet/extractSelection to the location assignment (the full planner model is Gw/Plan.v when present)",
                "gqlparser is the validity oracle for generated queries"],
        "C18": ["encoding/json and mime/multipart decode the posted operations/map as Go documents them (inputs are compared after decoding)",
                "Go map iteration order over the files of one request is arbitrary: for two files both orders are accepted by the correspondence",
                "the file value is opaque (graphql.Upload is neither a map nor a slice)"],
    })

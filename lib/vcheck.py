#!/usr/bin/env python3
"""Check driver for the Rocq/Coq verification of nautilus/gateway (see /verif/DESIGN.md).

One entry point:  bin/check <Cxx> [quick|thorough] [--replay file]

Every run
  1. builds the Coq development (full .vo build) and re-compiles Properties/<Cxx>.v, collecting
     the Print Assumptions output of every property theorem;
  2. scans the development for forbidden constructs (Admitted, Axiom, ...);
  3. ties the model to /repo's working tree: runs the translator (regenerated obligations) and/or
     the Go harness (built with -tags verif against the working tree), which writes the inputs and
     the implementation's observed behaviour as Gallina terms; coqc evaluates the model and the
     property oracle on them with vm_compute;
  4. classifies what it saw (known findings / violations / broken obligations), writes
     evidence/<Cxx>.json and a replay file when needed.
"""
import concurrent.futures
import fcntl
import hashlib
import json
import os
import re
import shutil
import subprocess
import sys
import time

VERIF = os.path.dirname(os.path.dirname(os.path.abspath(__file__)))
COQ = os.path.join(VERIF, "coq")
WORK = os.path.join(VERIF, ".work")
REPO = os.environ.get("VERIF_REPO", "/repo")
GOENV = dict(os.environ, GOFLAGS="-mod=mod", GOPROXY="off", GOSUMDB="off", GOTOOLCHAIN="local",
             CGO_ENABLED=os.environ.get("CGO_ENABLED", "0"))

FORBIDDEN = re.compile(
    r"\b(Admitted|admit|Axiom|Axioms|Parameter|Parameters|Conjecture|Conjectures|Hypothesis|Hypotheses|"
    r"Variable|Variables|Context|Abort|bypass_check|native_compute)\b|Unset\s+Guard|Unset\s+Positivity|"
    r"Unset\s+Universe|type-in-type|impredicative-set|Admit\s+Obligations")

TRUSTED_BASE = [
    "Coq 8.16.1 kernel and its VM (vm_compute); no native_compute; no extraction on the decision path",
    "hand-written Gallina model of the anchored Go code (coq/theories/Gw/*.v), tied to /repo by the "
    "correspondence run of this check (harness/, built with -tags verif against the working tree) and, "
    "where listed, by regenerated skeleton/constant obligations (translator/)",
    "Go harness: generators, Go->Gallina printers, canonicalisation (sorted object keys, error classes)",
    "modelled, not verified: encoding/json, mime/multipart, net/http, gqlparser, nautilus/graphql, "
    "the Go runtime (scheduler, maps, sync)",
]


def log(*a):
    print(*a, flush=True)


def run(cmd, cwd=None, env=None, timeout=None, capture=True):
    p = subprocess.run(cmd, cwd=cwd, env=env, timeout=timeout, stdout=subprocess.PIPE if capture else None,
                       stderr=subprocess.STDOUT if capture else None, text=True)
    return p.returncode, (p.stdout or "")


class Lock:
    def __init__(self, path):
        os.makedirs(os.path.dirname(path), exist_ok=True)
        self.f = open(path, "w")

    def __enter__(self):
        fcntl.flock(self.f, fcntl.LOCK_EX)
        return self

    def __exit__(self, *a):
        fcntl.flock(self.f, fcntl.LOCK_UN)
        self.f.close()


def coq_build():
    """Full build of the development; serialised across concurrent checks."""
    with Lock(os.path.join(WORK, "coq.lock")):
        mk = os.path.join(COQ, "Makefile")
        proj = os.path.join(COQ, "_CoqProject")
        if not os.path.exists(mk) or os.path.getmtime(mk) < os.path.getmtime(proj):
            rc, out = run(["coq_makefile", "-f", "_CoqProject", "-o", "Makefile"], cwd=COQ, timeout=120)
            if rc != 0:
                return False, out
        rc, out = run(["make", "-j16"], cwd=COQ, timeout=3000)
        return rc == 0, out


def coq_sources():
    res = []
    for root, _, files in os.walk(os.path.join(COQ, "theories")):
        for f in files:
            if f.endswith(".v"):
                res.append(os.path.join(root, f))
    return sorted(res)


def strip_comments(text):
    out, depth, i = [], 0, 0
    while i < len(text):
        if text.startswith("(*", i):
            depth += 1
            i += 2
        elif text.startswith("*)", i) and depth > 0:
            depth -= 1
            i += 2
        else:
            if depth == 0:
                out.append(text[i])
            i += 1
    return "".join(out)


def forbidden_scan():
    """Section variables (Variable/Hypothesis/Context inside a Section) are allowed; everything else
    in FORBIDDEN is reported.  Returns list of (file, line, text)."""
    hits = []
    for path in coq_sources():
        text = strip_comments(open(path, encoding="utf-8").read())
        depth = 0
        for n, line in enumerate(text.split("\n"), 1):
            s = line.strip()
            if re.match(r"Section\s+\w+", s):
                depth += 1
            if re.match(r"End\s+\w+", s) and depth > 0:
                depth -= 1
            # drop string literals
            nostr = re.sub(r'"([^"]|"")*"', '""', line)
            for m in FORBIDDEN.finditer(nostr):
                w = m.group(0)
                if depth > 0 and w in ("Variable", "Variables", "Hypothesis", "Hypotheses", "Context"):
                    continue
                hits.append((os.path.relpath(path, VERIF), n, s[:120]))
    return hits


def property_assumptions(prop, workdir):
    """Re-compile Properties/<prop>.v on its own and collect, per theorem, what Print Assumptions says."""
    src = os.path.join(COQ, "theories", "Properties", prop + ".v")
    text = open(src, encoding="utf-8").read()
    theorems = re.findall(r"^\s*Theorem\s+(\w+)", strip_comments(text), re.M)
    printed = re.findall(r"^\s*Print Assumptions\s+(\w+)\s*\.", strip_comments(text), re.M)
    rc, out = run(["coqc", "-Q", "theories", "GW", "-o", os.path.join(workdir, prop + ".vo"), src], cwd=COQ, timeout=1200)
    blocks = []
    if rc == 0:
        # output is a sequence of blocks, one per Print Assumptions, in order
        cur = None
        for line in out.split("\n"):
            if line.startswith("Closed under the global context"):
                blocks.append("Closed under the global context")
                cur = None
            elif line.startswith("Axioms:"):
                cur = ["Axioms:"]
                blocks.append(cur)
            elif cur is not None and line.strip():
                cur.append(line.rstrip())
        blocks = [b if isinstance(b, str) else "\n".join(b) for b in blocks]
    res = {"theorems": theorems, "printed": printed, "ok": rc == 0, "output": out if rc != 0 else "",
           "assumptions": dict(zip(printed, blocks))}
    return res


def build_harness(workdir):
    """go build -tags verif of the harness against REPO's working tree."""
    src = os.path.join(VERIF, "harness")
    shutil.copyfile(os.path.join(REPO, "go.sum"), os.path.join(workdir, "go.sum"))
    mod = open(os.path.join(src, "go.mod")).read()
    mod = mod.replace("=> /repo", "=> " + REPO)
    open(os.path.join(workdir, "go.mod"), "w").write(mod)
    exe = os.path.join(workdir, "gwharness")
    rc, out = run(["go", "build", "-tags", "verif", "-modfile", os.path.join(workdir, "go.mod"), "-o", exe, "."],
                  cwd=src, env=GOENV, timeout=1200)
    return (exe if rc == 0 else None), out


RESULT_RE = re.compile(r"^\s*=\s*\(\"?(\d+)\"?(?:%string)?,\s*(true|false),\s*(true|false)(?:,\s*(\[[^\]]*\]|nil))?\)\s*$")


def eval_shard(args):
    workdir, shard = args
    t = time.time()
    rc, out = run(["coqc", "-Q", os.path.join(COQ, "theories"), "GW", shard], cwd=workdir, timeout=3000)
    results = {}
    for line in out.split("\n"):
        m = RESULT_RE.match(line)
        if m:
            guards = []
            if m.group(4) and m.group(4) not in ("nil", "[]"):
                guards = [int(x) for x in re.findall(r"\d+", m.group(4))]
            results[int(m.group(1))] = (m.group(2) == "true", m.group(3) == "true", guards)
    return shard, rc, results, out if rc != 0 else "", time.time() - t


def load_known():
    path = os.path.join(VERIF, "known_findings.json")
    if not os.path.exists(path):
        return []
    return json.load(open(path))["findings"]


def write_json(path, obj):
    os.makedirs(os.path.dirname(path), exist_ok=True)
    tmp = path + ".tmp"
    with open(tmp, "w") as f:
        json.dump(obj, f, indent=1, sort_keys=False, default=str)
    os.replace(tmp, path)


def small(obj, limit=1500):
    s = json.dumps(obj, default=str)
    return obj if len(s) <= limit else {"truncated": s[:limit] + "..."}


class Check:
    def __init__(self, prop, tier, seed, replay=None):
        self.prop, self.tier, self.seed, self.replay = prop, tier, seed, replay
        self.t0 = time.time()
        self.workdir = os.path.join(WORK, "%s-%d" % (prop, os.getpid()))
        shutil.rmtree(self.workdir, ignore_errors=True)
        os.makedirs(self.workdir)
        self.broken = []       # proof obligations / ties that no longer check: (name, detail)
        self.violations = []   # (case, why)
        self.known_seen = {}   # finding id -> example case
        self.mismatches = []   # cases where model != implementation
        self.cov = {}
        self.cases = []
        self.notes = []

    # ---- stages -------------------------------------------------------------------------
    def stage_proof(self):
        ok, out = coq_build()
        if not ok:
            tail = "\n".join(out.strip().split("\n")[-25:])
            self.broken.append(("coq-build", tail))
            return
        hits = forbidden_scan()
        if hits:
            self.broken.append(("forbidden-construct", json.dumps(hits[:10])))
        pa = property_assumptions(self.prop, self.workdir)
        self.pa = pa
        if not pa["ok"]:
            self.broken.append(("Properties/%s.v" % self.prop, pa["output"][-2000:]))
        missing = [t for t in pa["theorems"] if t not in pa["assumptions"]]
        if missing and pa["ok"]:
            self.broken.append(("print-assumptions-missing", ",".join(missing)))
        axioms = {t: a for t, a in pa["assumptions"].items() if a != "Closed under the global context"}
        self.cov.update({
            "obligations": len(pa["theorems"]),
            "discharged": len([t for t in pa["theorems"] if t in pa["assumptions"]]) if pa["ok"] else 0,
            "theorems": pa["theorems"],
            "print_assumptions": pa["assumptions"],
            "axioms_used": axioms,
            "checker_cmd": "make -C coq -j16 (coq_makefile, full .vo build) && coqc -Q theories GW theories/Properties/%s.v" % self.prop,
        })

    def stage_obligations(self):
        """Tie (A): regenerate the skeletons/constants from the working tree with the translator and
        prove them equal to the ones the models were written from (reflexivity lemmas in
        coq/obligations/Obl_<prop>.v).  Nothing is written into the shared Coq tree."""
        obl = os.path.join(COQ, "obligations", "Obl_%s.v" % self.prop)
        if not os.path.exists(obl):
            return
        gen = os.path.join(self.workdir, "gen")
        os.makedirs(gen, exist_ok=True)
        exe = os.path.join(self.workdir, "gwtranslator")
        rc, out = run(["go", "build", "-o", exe, "."], cwd=os.path.join(VERIF, "translator"), env=GOENV, timeout=600)
        if rc != 0:
            self.broken.append(("translator-build", out[-2000:]))
            return
        rc, out = run([exe, REPO, os.path.join(gen, "Skeletons.v")], cwd=self.workdir, timeout=120)
        if rc != 0:
            self.broken.append(("translator-run", out[-2000:]))
            return
        rc, out = run(["coqc", "-Q", gen, "Gen", os.path.join(gen, "Skeletons.v")], cwd=gen, timeout=300)
        if rc != 0:
            self.broken.append(("generated-skeletons", out[-2000:]))
            return
        text = strip_comments(open(obl, encoding="utf-8").read())
        lemmas = re.findall(r"^\s*Lemma\s+(\w+)", text, re.M)
        rc, out = run(["coqc", "-Q", os.path.join(COQ, "theories"), "GW", "-Q", gen, "Gen",
                       "-o", os.path.join(self.workdir, "Obl_%s.vo" % self.prop), obl], cwd=self.workdir, timeout=600)
        ok = rc == 0
        failed = None
        if not ok:
            m = re.search(r"line (\d+)", out)
            if m:
                upto = "\n".join(open(obl, encoding="utf-8").read().split("\n")[:int(m.group(1))])
                names = re.findall(r"Lemma\s+(\w+)", upto)
                failed = names[-1] if names else None
            self.broken.append(("regenerated obligation %s (coq/obligations/Obl_%s.v)" % (failed or "?", self.prop),
                                "the skeleton/constant regenerated from the working tree differs from the one the model was written from\n" + out[-1500:]))
        self.cov["regenerated_obligations"] = lemmas
        self.cov["obligations"] = self.cov.get("obligations", 0) + len(lemmas)
        self.cov["discharged"] = self.cov.get("discharged", 0) + (len(lemmas) if ok else 0)

    def stage_harness(self, extra_args=(), label="cases"):
        exe, out = build_harness(self.workdir)
        if exe is None:
            self.broken.append(("harness-build", out[-3000:]))
            return None
        outdir = os.path.join(self.workdir, label)
        cmd = [exe, self.prop, "-seed", str(self.seed), "-tier", self.tier, "-out", outdir] + list(extra_args)
        if self.replay:
            cmd += ["-replay", self.replay]
        rc, out = run(cmd, cwd=self.workdir, env=GOENV, timeout=6000)
        if rc != 0:
            crumb = os.path.join(outdir, "current_case.json")
            if os.path.exists(crumb):
                # the process that ran the gateway died (a panic in one of the gateway's own goroutines
                # cannot be recovered by the harness): the case it was running is the failing input
                try:
                    cur = json.load(open(crumb))
                    case = {"id": -1, "kind": cur.get("kind", "case"), "input": cur.get("input"),
                            "observed": {"process_died": out[-1500:]}, "nontrivial": True}
                    self.violations.append((case, "the process running the gateway died while executing this case"))
                    return None
                except Exception:
                    pass
            self.broken.append(("harness-run", out[-3000:]))
            return None
        doc = json.load(open(os.path.join(outdir, "cases.json")))
        shards = [(outdir, s) for s in doc["shards"]]
        results = {}
        with concurrent.futures.ThreadPoolExecutor(max_workers=min(16, max(1, len(shards)))) as ex:
            for shard, rc, res, err, dt in ex.map(eval_shard, shards):
                if rc != 0:
                    self.broken.append(("coqc " + shard, err[-2000:]))
                results.update(res)
        return doc, results

    def stage_race(self):
        """The same harness built with Go's race detector, run on a smaller number of cases of this
        property: a data race in the gateway (a value still written by the collector while a step or
        a logger reads it, a plan shared by two requests, the cache's maps) is reported with the
        detector's report as the failing run.  Nothing is evaluated in Coq here."""
        if self.prop not in RACE_PROPS or self.replay:
            return
        src = os.path.join(VERIF, "harness")
        exe = os.path.join(self.workdir, "gwharness-race")
        env = dict(GOENV, CGO_ENABLED="1")
        rc, out = run(["go", "build", "-race", "-tags", "verif", "-modfile", os.path.join(self.workdir, "go.mod"), "-o", exe, "."],
                      cwd=src, env=env, timeout=1800)
        if rc != 0:
            self.notes.append("race stage skipped: go build -race is not available here (%s)" % out.strip().split("\n")[-1][:200])
            self.cov["race_stage"] = {"available": False}
            return
        n = 400 if self.tier == "thorough" else 60
        outdir = os.path.join(self.workdir, "race")
        cmd = [exe, self.prop, "-seed", str(self.seed + 104729), "-tier", "quick", "-out", outdir, "-n", str(n)]
        rc, out = run(cmd, cwd=self.workdir, env=dict(env, GORACE="halt_on_error=0"), timeout=3000)
        races = out.count("WARNING: DATA RACE")
        self.cov["race_stage"] = {"available": True, "cases": n, "data_races_reported": races,
                                  "cmd": "go build -race -tags verif ./harness && gwharness-race %s -seed %d -n %d" % (self.prop, self.seed + 104729, n)}
        if races:
            i = out.find("WARNING: DATA RACE")
            case = {"id": -2, "kind": "race-detector run", "nontrivial": True,
                    "input": {"cmd": " ".join(cmd[1:]), "note": "rebuild the harness with `go build -race -tags verif` and run it with these arguments"},
                    "observed": {"data_races": races, "first_report": out[i:i + 3500]}}
            self.violations.append((case, "the race detector reports a data race inside the gateway while it serves this property's cases"))
        elif rc != 0:
            crumb = os.path.join(outdir, "current_case.json")
            cur = None
            try:
                cur = json.load(open(crumb))
            except Exception:
                pass
            case = {"id": -2, "kind": "race-detector run", "nontrivial": True,
                    "input": (cur or {}).get("input", {"cmd": " ".join(cmd[1:])}), "observed": {"process_died": out[-1500:]}}
            self.violations.append((case, "the process running the gateway died under the race-detector build"))

    def classify(self, doc, results, known):
        known_by_guard = {}
        for k in known:
            if k["property"] == self.prop and k.get("status") == "known":
                known_by_guard[k["guard"]] = k
        missing = 0
        for case in doc["cases"]:
            r = results.get(case["id"])
            if r is None:
                missing += 1
                continue
            model_ok, prop_ok, guards = r
            if guards:
                self.cov["cases_in_a_known_finding_class"] = self.cov.get("cases_in_a_known_finding_class", 0) + 1
            if not prop_ok:
                # the guards are syntactic classes of the client document; a failing case is
                # explained by a listed finding when it lies in at least one listed class
                if any(g in known_by_guard for g in guards):
                    for g in guards:
                        if g in known_by_guard:
                            self.known_seen.setdefault(known_by_guard[g]["id"], case)
                else:
                    self.violations.append((case, "property oracle fails on the implementation's observed behaviour"))
            if not model_ok:
                self.mismatches.append(case)
        if missing:
            self.broken.append(("cases-not-evaluated", "%d of %d cases have no result line" % (missing, len(doc["cases"]))))

    # ---- verdict ------------------------------------------------------------------------
    def finish(self, doc, known):
        prop = self.prop
        wall = time.time() - self.t0
        cases = doc["cases"] if doc else []
        distinct = len({c.get("key") or json.dumps(c["input"], sort_keys=True) for c in cases if c.get("nontrivial")})
        samples = [small({"kind": c["kind"], "input": c["input"], "observed": c["observed"]}) for c in cases[:2] + cases[-2:]]
        if not samples:
            samples = [{"note": "no cases were produced on this run"}]
        self.cov.update({
            "trusted_base": TRUSTED_BASE,
            "evaluations": len(cases),
            "distinct_nontrivial": distinct,
            "rule": (doc or {}).get("extra", {}) and doc["extra"].get("rule") or RULES.get(prop, ""),
            "samples": samples,
            "distribution": (doc or {}).get("distribution", {}),
            "model_vs_implementation_mismatches": len(self.mismatches),
            "known_findings_reobserved": sorted(self.known_seen),
            "broken_obligations": [b[0] for b in self.broken],
        })
        exit_code = 0
        lines = []
        for k in known:
            if k["property"] == prop and k.get("status") == "known":
                seen = "re-observed on this run" if k["id"] in self.known_seen else "listed (not re-observed on this run)"
                lines.append("KNOWN-FINDING: property=%s %s [%s] %s" % (prop, k["id"], seen, k["what"]))
        replay_path = None
        if self.violations:
            case, why = min(self.violations, key=lambda cw: len(json.dumps(cw[0]["input"], default=str)))
            replay_path = os.path.join(VERIF, "replays", "%s-%d.json" % (prop, self.seed))
            write_json(replay_path, {"property": prop, "seed": self.seed, "tier": self.tier, "why": why,
                                     "case": case, "other_failing_cases": len(self.violations) - 1,
                                     "replay_cmd": "bin/check %s --replay %s" % (prop, replay_path)})
            lines.append("VIOLATION property=%s replay=%s" % (prop, replay_path))
            exit_code = 1
        elif self.mismatches or self.broken:
            replay_path = os.path.join(VERIF, "replays", "%s-%d.json" % (prop, self.seed))
            first = min(self.mismatches, key=lambda c: len(json.dumps(c["input"], default=str))) if self.mismatches else None
            write_json(replay_path, {"property": prop, "seed": self.seed, "tier": self.tier,
                                     "why": "a proof obligation or the model/implementation correspondence no longer checks; "
                                            "the search found no input on which the property itself fails",
                                     "broken": [{"name": b[0], "detail": b[1]} for b in self.broken],
                                     "correspondence": "model_agrees = false on %d case(s)" % len(self.mismatches),
                                     "case": first,
                                     "replay_cmd": "bin/check %s --replay %s" % (prop, replay_path)})
            lines.append("VIOLATION property=%s replay=%s no-failing-input-found" % (prop, replay_path))
            exit_code = 1
        ev = {
            "property_id": prop, "tier": self.tier, "seed": self.seed, "level": "proof",
            "coverage": self.cov,
            "assumptions": ASSUMPTIONS.get(prop, []) + self.notes,
            "wall_s": round(wall, 2),
            "violations": len(self.violations) + (1 if (not self.violations and (self.mismatches or self.broken)) else 0),
        }
        if not self.replay and REPO == "/repo":
            # runs against a scratch copy (VERIF_REPO) or replays never overwrite the evidence
            write_json(os.path.join(VERIF, "evidence", prop + ".json"), ev)
        for l in lines:
            log(l)
        log("%s %s tier=%s seed=%d cases=%d mismatches=%d violations=%d broken=%d wall=%.1fs" % (
            "PASS" if exit_code == 0 else "FAIL", prop, self.tier, self.seed, len(cases), len(self.mismatches),
            len(self.violations), len(self.broken), wall))
        if exit_code and self.broken:
            for b in self.broken[:3]:
                log("  broken: %s: %s" % (b[0], b[1][-600:].replace("\n", "\n    ")))
        shutil.rmtree(self.workdir, ignore_errors=True)
        return exit_code


RULES = {}
ASSUMPTIONS = {}
EXTRA_STAGES = {}
# properties whose cases run goroutines of the gateway concurrently (executor, collector, cache, batches)
RACE_PROPS = {"C05", "C06", "C07", "C11", "C12", "C13", "C16"}


def generic_main(prop, tier, seed, replay):
    chk = Check(prop, tier, seed, replay)
    known = load_known()
    chk.stage_proof()
    chk.stage_obligations()
    doc = None
    for stage in EXTRA_STAGES.get(prop, {}).get("pre", []):
        stage(chk)
    r = chk.stage_harness()
    chk.stage_race()
    if r:
        doc, results = r
        chk.classify(doc, results, known)
        # a broken correspondence with no failing input yet: search harder before reporting
        if (chk.mismatches or chk.broken) and not chk.violations and not replay:
            chk.seed += 7919
            r2 = chk.stage_harness(extra_args=["-n", str(4 * max(1, len(doc["cases"])))], label="search")
            chk.seed -= 7919
            if r2:
                doc2, results2 = r2
                before = len(chk.mismatches)
                chk.classify(doc2, results2, known)
                chk.notes.append("search pass: %d further cases, %d further mismatches" % (len(doc2["cases"]), len(chk.mismatches) - before))
    return chk.finish(doc, known)


def main(argv):
    if len(argv) < 2:
        print(__doc__)
        return 2
    prop = argv[1]
    tier = os.environ.get("VERIF_TIER", "quick")
    replay = None
    i = 2
    while i < len(argv):
        if argv[i] in ("quick", "thorough"):
            tier = argv[i]
        elif argv[i] == "--replay":
            replay = os.path.abspath(argv[i + 1])
            i += 1
        i += 1
    seed = int(os.environ.get("VERIF_SEED", "1"))
    import props  # registers RULES / ASSUMPTIONS / EXTRA_STAGES
    props.register(sys.modules[__name__])
    os.makedirs(WORK, exist_ok=True)
    return generic_main(prop, tier, seed, replay)


if __name__ == "__main__":
    sys.exit(main(sys.argv))

#!/bin/sh
# Run once after a fresh restore, offline: builds the Coq development and warms the Go build cache.
set -e
DIR="$(cd "$(dirname "$0")/.." && pwd)"
export GOFLAGS=-mod=mod GOPROXY=off GOSUMDB=off GOTOOLCHAIN=local
mkdir -p "$DIR/.work" "$DIR/evidence" "$DIR/replays"
cd "$DIR/coq"
coq_makefile -f _CoqProject -o Makefile >/dev/null
timeout 3000 make -j16
cd "$DIR/harness"
cp /repo/go.sum . 2>/dev/null || true
timeout 1200 go build -tags verif -o "$DIR/.work/gwharness.warm" . && rm -f "$DIR/.work/gwharness.warm"
if [ -d "$DIR/translator" ]; then
  cd "$DIR/translator" && timeout 600 go build -o "$DIR/.work/translator.warm" . && rm -f "$DIR/.work/translator.warm"
fi
echo setup ok

// Command gwtranslator reads nautilus/gateway's sources and writes, as Gallina string constants,
// the synchronisation skeleton of the goroutine protocols the proofs are about, the constants
// they depend on, and the write sets of the execution path.  Everything that is not a channel,
// wait-group, mutex, sync.Map or goroutine operation, a call into the package, a store into an
// indexed slot / append, or control flow around those is erased; local identifiers that name
// synchronisation objects are numbered in order of first appearance (x0, x1, ...).
package main

import (
	"fmt"
	"go/ast"
	"go/parser"
	"go/printer"
	"go/token"
	"os"
	"path/filepath"
	"sort"
	"strings"
)

var fset = token.NewFileSet()

type ctx struct {
	names    map[string]string // local sync identifiers -> xN
	pkgFuncs map[string]bool
	imports  map[string]bool // names of imported packages in this file
	recv     string          // name of the method receiver
	conds    bool            // render if-conditions
	locals   map[string]bool // local closures whose bodies take part in the protocol
}

func (c *ctx) rename(root string) string {
	if n, ok := c.names[root]; ok {
		return n
	}
	n := fmt.Sprintf("x%d", len(c.names))
	c.names[root] = n
	return n
}

// operand renders the expression naming a sync object, renaming its root identifier
func (c *ctx) operand(e ast.Expr) string {
	switch e := e.(type) {
	case *ast.Ident:
		return c.rename(e.Name)
	case *ast.SelectorExpr:
		return c.operandSel(e.X) + "." + e.Sel.Name
	case *ast.UnaryExpr:
		return c.operand(e.X)
	case *ast.StarExpr:
		return c.operand(e.X)
	case *ast.ParenExpr:
		return c.operand(e.X)
	case *ast.IndexExpr:
		return c.operand(e.X) + "[" + src(e.Index) + "]"
	}
	return src(e)
}

// receivers such as "c" or "g" in c.timeMutex are kept as the field path without the receiver name
func (c *ctx) operandSel(e ast.Expr) string {
	if id, ok := e.(*ast.Ident); ok {
		if id.Name == c.recv {
			return "recv"
		}
		return c.rename(id.Name)
	}
	return c.operand(e)
}

func src(n ast.Node) string {
	var b strings.Builder
	_ = printer.Fprint(&b, fset, n)
	return strings.Join(strings.Fields(b.String()), " ")
}

func funName(e ast.Expr) string {
	switch e := e.(type) {
	case *ast.Ident:
		return e.Name
	case *ast.SelectorExpr:
		return funName(e.X) + "." + e.Sel.Name
	case *ast.CallExpr:
		return funName(e.Fun) + "()"
	case *ast.ParenExpr:
		return funName(e.X)
	}
	return "_"
}

var syncMethods = map[string]bool{"Add": true, "Done": true, "Wait": true, "Lock": true, "Unlock": true,
	"Load": true, "LoadOrStore": true, "Store": true, "Delete": true, "Range": true, "Reset": true}

var keptMethods = map[string]bool{"Execute": true, "Plan": true, "Retrieve": true, "GetPlans": true, "Query": true, "WithMiddlewares": true}

func (c *ctx) call(call *ast.CallExpr) (string, bool) {
	if id, ok := call.Fun.(*ast.Ident); ok {
		switch {
		case id.Name == "close":
			return "(Close " + c.operand(call.Args[0]) + ")", true
		case c.locals[id.Name]:
			return "(CallLocal " + id.Name + ")", true
		case c.pkgFuncs[id.Name]:
			return "(Call " + id.Name + c.closureArgs(call) + ")", true
		}
		return "", false
	}
	if sel, ok := call.Fun.(*ast.SelectorExpr); ok {
		m := sel.Sel.Name
		if id, ok := sel.X.(*ast.Ident); ok && c.imports[id.Name] {
			return "", false // a function of another package
		}
		if m == "Add" {
			// only wait-group style Add(1) / Add(len(x)) is synchronisation
			isCount := false
			if len(call.Args) == 1 {
				if bl, ok := call.Args[0].(*ast.BasicLit); ok && bl.Kind == token.INT {
					isCount = true
				}
				if cc, ok := call.Args[0].(*ast.CallExpr); ok && funName(cc.Fun) == "len" {
					isCount = true
				}
			}
			if !isCount {
				return "", false
			}
		}
		if syncMethods[m] {
			arg := ""
			if m == "Add" && len(call.Args) == 1 {
				arg = " " + src(call.Args[0])
				if cc, ok := call.Args[0].(*ast.CallExpr); ok && funName(cc.Fun) == "len" {
					arg = " len"
				}
			}
			body := ""
			if m == "Range" && len(call.Args) == 1 {
				if fl, ok := call.Args[0].(*ast.FuncLit); ok {
					body = " {" + c.stmts(fl.Body.List) + "}"
				}
			}
			return "(" + m + " " + c.operand(sel.X) + arg + body + ")", true
		}
		if keptMethods[m] || c.pkgFuncs[m] {
			return "(Call ." + m + c.closureArgs(call) + ")", true
		}
	}
	return "", false
}

// a function literal passed as an argument is part of the protocol
func (c *ctx) closureArgs(call *ast.CallExpr) string {
	out := ""
	for _, a := range call.Args {
		if fl, ok := a.(*ast.FuncLit); ok {
			out += " {" + c.stmts(fl.Body.List) + "}"
		}
	}
	return out
}

func (c *ctx) exprEffects(e ast.Expr) string {
	// sync-relevant calls nested in an expression (e.g. in an if initialiser or an assignment)
	out := ""
	ast.Inspect(e, func(n ast.Node) bool {
		switch x := n.(type) {
		case *ast.FuncLit:
			return false
		case *ast.CallExpr:
			if r, ok := c.call(x); ok {
				out += r
				return false
			}
		case *ast.UnaryExpr:
			if x.Op == token.ARROW {
				out += "(Recv " + c.operand(x.X) + ")"
				return false
			}
		}
		return true
	})
	return out
}

func (c *ctx) stmts(l []ast.Stmt) string {
	var b strings.Builder
	for _, s := range l {
		b.WriteString(c.stmt(s))
	}
	return b.String()
}

func (c *ctx) stmt(s ast.Stmt) string {
	switch s := s.(type) {
	case *ast.ExprStmt:
		return c.exprEffects(s.X)
	case *ast.SendStmt:
		return "(Send " + c.operand(s.Chan) + ")"
	case *ast.GoStmt:
		if fl, ok := s.Call.Fun.(*ast.FuncLit); ok {
			return "(Go {" + c.stmts(fl.Body.List) + "})"
		}
		return "(Go " + funName(s.Call.Fun) + c.closureArgs(s.Call) + ")"
	case *ast.DeferStmt:
		if r, ok := c.call(s.Call); ok {
			return "(Defer " + r + ")"
		}
		if fl, ok := s.Call.Fun.(*ast.FuncLit); ok {
			return "(Defer {" + c.stmts(fl.Body.List) + "})"
		}
		return ""
	case *ast.AssignStmt:
		out := ""
		for i, r := range s.Rhs {
			// a closure kept in a variable: its body is part of the protocol wherever it is called
			if fl, ok := r.(*ast.FuncLit); ok && i < len(s.Lhs) {
				if id, ok := s.Lhs[i].(*ast.Ident); ok {
					if body := c.stmts(fl.Body.List); body != "" {
						if c.locals == nil {
							c.locals = map[string]bool{}
						}
						c.locals[id.Name] = true
						out += "(Closure " + id.Name + " {" + body + "})"
					}
					continue
				}
			}
			if call, ok := r.(*ast.CallExpr); ok {
				if id, ok := call.Fun.(*ast.Ident); ok && id.Name == "make" && len(call.Args) >= 1 {
					if _, ok := call.Args[0].(*ast.ChanType); ok {
						capv := "0"
						if len(call.Args) > 1 {
							capv = src(call.Args[1])
						}
						out += "(MakeChan " + c.operand(s.Lhs[i]) + " " + capv + ")"
						continue
					}
				}
				if id, ok := call.Fun.(*ast.Ident); ok && id.Name == "append" && i < len(s.Lhs) {
					out += "(Append " + src(s.Lhs[i]) + ")"
				}
			}
			out += c.exprEffects(r)
		}
		for _, l := range s.Lhs {
			if ix, ok := l.(*ast.IndexExpr); ok {
				out += "(StoreAt " + src(ix.X) + "[" + src(ix.Index) + "])"
			}
		}
		return out
	case *ast.DeclStmt:
		return ""
	case *ast.ForStmt:
		b := c.stmts(s.Body.List)
		if b == "" {
			return ""
		}
		return "(For {" + b + "})"
	case *ast.RangeStmt:
		b := c.stmts(s.Body.List)
		if b == "" {
			return ""
		}
		over := ""
		if ch, ok := s.X.(*ast.Ident); ok {
			if _, known := c.names[ch.Name]; known {
				over = " " + c.operand(ch) // ranging over a channel
			}
		}
		return "(Range" + over + " {" + b + "})"
	case *ast.IfStmt:
		init := ""
		if s.Init != nil {
			init = c.stmt(s.Init)
		}
		cond := c.exprEffects(s.Cond)
		b := c.stmts(s.Body.List)
		e := ""
		if s.Else != nil {
			e = c.stmt(s.Else)
		}
		if init+cond+b+e == "" {
			return ""
		}
		ct := ""
		if c.conds {
			ct = " [" + src(s.Cond) + "]"
		}
		out := init + "(If" + ct + " " + cond + "{" + b + "}"
		if e != "" {
			out += " else {" + e + "}"
		}
		return out + ")"
	case *ast.BlockStmt:
		return c.stmts(s.List)
	case *ast.SwitchStmt:
		out := ""
		n := 0
		for _, cl := range s.Body.List {
			cc := cl.(*ast.CaseClause)
			b := c.stmts(cc.Body)
			n += len(b)
			out += "(Case {" + b + "})"
		}
		if n == 0 {
			return ""
		}
		return "(Switch " + out + ")"
	case *ast.TypeSwitchStmt:
		out := ""
		n := 0
		for _, cl := range s.Body.List {
			cc := cl.(*ast.CaseClause)
			b := c.stmts(cc.Body)
			n += len(b)
			out += "(Case {" + b + "})"
		}
		if n == 0 {
			return ""
		}
		return "(Switch " + out + ")"
	case *ast.SelectStmt:
		out := "(Select "
		for _, cl := range s.Body.List {
			cc := cl.(*ast.CommClause)
			h := "default"
			if cc.Comm != nil {
				h = c.stmt(cc.Comm)
			}
			out += "(On " + h + " {" + c.stmts(cc.Body) + "})"
		}
		return out + ")"
	case *ast.LabeledStmt:
		return c.stmt(s.Stmt)
	case *ast.ReturnStmt:
		eff := ""
		for _, r := range s.Results {
			eff += c.exprEffects(r)
		}
		return eff + "(Return)"
	case *ast.BranchStmt:
		return "(" + strings.Title(s.Tok.String()) + ")"
	}
	return ""
}

type target struct {
	file, recvType, fn string
	conds              bool
}

// writeSet lists, sorted and de-duplicated, the stores of a function that go through something
// other than a plain local variable: "P:" through a parameter or the receiver, "L:" through a
// local (an alias the function made), "D:" a delete() on a map, "M:" a method call on a plan or
// step (Add/Remove on a Set mutates it).  Function literals inside the body are included.
func writeSet(fd *ast.FuncDecl) string {
	params := map[string]bool{}
	if fd.Recv != nil {
		for _, f := range fd.Recv.List {
			for _, n := range f.Names {
				params[n.Name] = true
			}
		}
	}
	for _, f := range fd.Type.Params.List {
		for _, n := range f.Names {
			params[n.Name] = true
		}
	}
	rootOf := func(e ast.Expr) (string, bool) {
		plain := true
		for {
			switch x := e.(type) {
			case *ast.Ident:
				return x.Name, plain
			case *ast.SelectorExpr:
				e, plain = x.X, false
			case *ast.IndexExpr:
				e, plain = x.X, false
			case *ast.StarExpr:
				e, plain = x.X, false
			case *ast.ParenExpr:
				e = x.X
			default:
				return "?", false
			}
		}
	}
	set := map[string]bool{}
	record := func(kind string, e ast.Expr) {
		root, plain := rootOf(e)
		if plain && kind != "D" {
			return // assignment to a variable itself
		}
		tag := "L"
		if params[root] {
			tag = "P"
		}
		if kind != "" {
			tag = kind + tag
		}
		set[tag+":"+src(e)] = true
	}
	ast.Inspect(fd.Body, func(n ast.Node) bool {
		switch x := n.(type) {
		case *ast.AssignStmt:
			for _, l := range x.Lhs {
				record("", l)
			}
		case *ast.IncDecStmt:
			record("", x.X)
		case *ast.CallExpr:
			if id, ok := x.Fun.(*ast.Ident); ok && id.Name == "delete" && len(x.Args) > 0 {
				record("D", x.Args[0])
			}
			if sel, ok := x.Fun.(*ast.SelectorExpr); ok {
				switch sel.Sel.Name {
				case "Add", "Remove", "Store", "Delete", "LoadOrStore":
					if _, isIdent := sel.X.(*ast.Ident); !isIdent {
						set["M:"+src(sel.X)+"."+sel.Sel.Name] = true
					}
				}
			}
		}
		return true
	})
	keys := []string{}
	for k := range set {
		keys = append(keys, k)
	}
	sort.Strings(keys)
	return strings.Join(keys, " ; ")
}

func recvTypeName(fd *ast.FuncDecl) (typ, name string) {
	if fd.Recv == nil || len(fd.Recv.List) == 0 {
		return "", ""
	}
	f := fd.Recv.List[0]
	if len(f.Names) > 0 {
		name = f.Names[0].Name
	}
	t := f.Type
	if st, ok := t.(*ast.StarExpr); ok {
		t = st.X
	}
	if id, ok := t.(*ast.Ident); ok {
		typ = id.Name
	}
	return
}

func coqString(s string) string { return "\"" + strings.ReplaceAll(s, "\"", "\"\"") + "\"" }

func main() {
	if len(os.Args) < 3 {
		fmt.Fprintln(os.Stderr, "usage: gwtranslator <repo dir> <output .v file>")
		os.Exit(2)
	}
	repo, outPath := os.Args[1], os.Args[2]
	files := map[string]*ast.File{}
	pkgFuncs := map[string]bool{}
	for _, name := range []string{"execute.go", "plan.go", "http.go", "cache.go", "gateway.go", "middlewares.go", "merge.go"} {
		f, err := parser.ParseFile(fset, filepath.Join(repo, name), nil, 0)
		if err != nil {
			fmt.Fprintln(os.Stderr, "parse error:", err)
			os.Exit(1)
		}
		files[name] = f
		for _, d := range f.Decls {
			if fd, ok := d.(*ast.FuncDecl); ok {
				pkgFuncs[fd.Name.Name] = true
			}
		}
	}
	targets := []target{
		{"execute.go", "ParallelExecutor", "Execute", false}, {"execute.go", "", "executeStep", false},
		{"plan.go", "MinQueriesPlanner", "generatePlans", false}, {"plan.go", "MinQueriesPlanner", "extractSelection", false},
		{"http.go", "Gateway", "GraphQLHandler", false}, {"http.go", "Gateway", "setResultFunc", false}, {"http.go", "Gateway", "executeRequest", false},
		{"cache.go", "AutomaticQueryPlanCache", "Retrieve", true},
		{"gateway.go", "Gateway", "Execute", false},
		{"execute.go", "", "executorExtractValue", false}, {"execute.go", "", "executorInsertObject", false},
		{"execute.go", "", "executorFindInsertionPoints", false}, {"middlewares.go", "", "scrubInsertionIDs", false},
		// the comparisons mergeSchemas makes per kind (C03, C09, C10), conditions included
		{"merge.go", "", "mergeInterfaces", true}, {"merge.go", "", "mergeObjectTypes", true}, {"merge.go", "", "mergeInputObjects", true},
		{"merge.go", "", "mergeFieldList", true}, {"merge.go", "", "mergeFields", true}, {"merge.go", "", "mergeEnums", true},
		{"merge.go", "", "mergeEnumValues", true}, {"merge.go", "", "mergeScalars", true}, {"merge.go", "", "mergeUnions", true},
		{"merge.go", "", "mergeDirectives", true}, {"merge.go", "", "mergeDirectiveLocations", true},
		{"merge.go", "", "mergeArgumentDefinitionList", true}, {"merge.go", "", "mergeDirectiveListsEqual", true},
		{"merge.go", "", "mergeDirectiveEqual", true}, {"merge.go", "", "mergeInterfaceNames", true},
		{"merge.go", "", "mergeStringSliceEquivalent", true}, {"merge.go", "", "mergeTypesEqual", true}, {"merge.go", "", "mergeValuesEqual", true},
		{"merge.go", "", "mergeArgumentListEqual", true}, {"merge.go", "", "mergeArgumentsEqual", true}, {"merge.go", "", "mergeArgumentDefinitions", true},
		{"merge.go", "", "mergeSchemas", true},
		// small decision functions, conditions included: the routing table (C03), the chooser (C20), the lookup by operation name (C17)
		{"gateway.go", "", "fieldURLs", true}, {"gateway.go", "FieldURLMap", "URLFor", true}, {"gateway.go", "FieldURLMap", "Concat", true},
		{"gateway.go", "FieldURLMap", "RegisterURL", true}, {"gateway.go", "FieldURLMap", "keyFor", true},
		{"plan.go", "MinQueriesPlanner", "selectLocation", true}, {"plan.go", "QueryPlanList", "ForOperation", true},
	}
	var out strings.Builder
	out.WriteString("(* GENERATED by /verif/translator from the working tree of nautilus/gateway; do not edit. *)\n")
	out.WriteString("From Coq Require Import String.\nOpen Scope string_scope.\n\n")
	for _, t := range targets {
		found := false
		for _, d := range files[t.file].Decls {
			fd, ok := d.(*ast.FuncDecl)
			if !ok || fd.Body == nil || fd.Name.Name != t.fn {
				continue
			}
			rt, rn := recvTypeName(fd)
			if rt != t.recvType {
				continue
			}
			found = true
			imports := map[string]bool{}
			for _, im := range files[t.file].Imports {
				p := strings.Trim(im.Path.Value, "\"")
				n := p[strings.LastIndex(p, "/")+1:]
				if im.Name != nil {
					n = im.Name.Name
				}
				imports[n] = true
			}
			c := &ctx{names: map[string]string{}, pkgFuncs: pkgFuncs, imports: imports, recv: rn, conds: t.conds}
			sk := c.stmts(fd.Body.List)
			fmt.Fprintf(&out, "Definition gen_%s_%s : string :=\n  %s.\n\n", strings.TrimSuffix(t.file, ".go"), t.fn, coqString(sk))
		}
		if !found {
			fmt.Fprintf(&out, "Definition gen_%s_%s : string := \"<missing>\".\n\n", strings.TrimSuffix(t.file, ".go"), t.fn)
		}
	}
	// write sets of the execution path
	for _, w := range []struct{ file, fn string }{
		{"gateway.go", "Execute"}, {"execute.go", "Execute"}, {"execute.go", "executeStep"}, {"execute.go", "executeOneStep"},
		{"execute.go", "findSelection"}, {"execute.go", "executorFindInsertionPoints"}, {"execute.go", "executorExtractValue"},
		{"execute.go", "executorInsertObject"}, {"execute.go", "executorMergeObject"}, {"execute.go", "executorMergeValue"},
		{"execute.go", "executorGetPointData"}, {"middlewares.go", "scrubInsertionIDs"},
	} {
		val := "<missing>"
		for _, d := range files[w.file].Decls {
			if fd, ok := d.(*ast.FuncDecl); ok && fd.Body != nil && fd.Name.Name == w.fn {
				if w.fn == "Execute" {
					rt, _ := recvTypeName(fd)
					if (w.file == "gateway.go") != (rt == "Gateway") {
						continue
					}
				}
				val = writeSet(fd)
			}
		}
		fmt.Fprintf(&out, "Definition gen_writes_%s_%s : string :=\n  %s.\n\n", strings.TrimSuffix(w.file, ".go"), w.fn, coqString(val))
	}
	// constants
	consts := map[string]string{}
	for _, f := range files {
		ast.Inspect(f, func(n ast.Node) bool {
			if vs, ok := n.(*ast.ValueSpec); ok {
				for i, id := range vs.Names {
					if i < len(vs.Values) {
						switch id.Name {
						case "maxResultBuffer", "maxConcurrentSteps", "MessageMissingCachedQuery", "internalSchemaLocation":
							consts[id.Name] = src(vs.Values[i])
						}
					}
				}
			}
			if kv, ok := n.(*ast.KeyValueExpr); ok {
				if id, ok := kv.Key.(*ast.Ident); ok && id.Name == "ttl" {
					if _, isIdent := kv.Value.(*ast.Ident); !isIdent {
						consts["defaultTTL"] = src(kv.Value)
					}
				}
			}
			return true
		})
	}
	keys := []string{}
	for k := range consts {
		keys = append(keys, k)
	}
	sort.Strings(keys)
	for _, k := range keys {
		fmt.Fprintf(&out, "Definition gen_const_%s : string := %s.\n", k, coqString(consts[k]))
	}
	// write only when the content changed, so that an unchanged tree needs no rebuild
	if old, err := os.ReadFile(outPath); err == nil && string(old) == out.String() {
		return
	}
	if err := os.WriteFile(outPath, []byte(out.String()), 0o644); err != nil {
		fmt.Fprintln(os.Stderr, err)
		os.Exit(1)
	}
}

// Command gwtranslator reads nautilus/gateway's sources and writes, as Gallina string constants,
// the synchronisation skeleton of the goroutine protocols the proofs are about, the constants
// they depend on, and the write sets of the execution path.  Everything that is not a channel,
// wait-group, mutex, sync.Map or goroutine operation, a call into the package, a store into an
// indexed slot / append, or control flow around those is erased; local identifiers that name
// synchronisation objects are numbered in order of first appearance (x0, x1, ...).
package main

import (
	"fmt"
	"go/ast"
	"go/parser"
	"go/printer"
	"go/token"
	"os"
	"path/filepath"
	"sort"
	"strings"
)

var fset = token.NewFileSet()

type ctx struct {
	names    map[string]string // local sync identifiers -> xN
	pkgFuncs map[string]bool
	imports  map[string]bool // names of imported packages in this file
	recv     string          // name of the method receiver
	conds    bool            // render if-conditions
	full     bool            // also render loop conditions, ranged-over expressions, switch tags and case lists
	locals   map[string]bool // local closures whose bodies take part in the protocol
}

func (c *ctx) rename(root string) string {
	if n, ok := c.names[root]; ok {
		return n
	}
	n := fmt.Sprintf("x%d", len(c.names))
	c.names[root] = n
	return n
}

// operand renders the expression naming a sync object, renaming its root identifier
func (c *ctx) operand(e ast.Expr) string {
	switch e := e.(type) {
	case *ast.Ident:
		return c.rename(e.Name)
	case *ast.SelectorExpr:
		return c.operandSel(e.X) + "." + e.Sel.Name
	case *ast.UnaryExpr:
		return c.operand(e.X)
	case *ast.StarExpr:
		return c.operand(e.X)
	case *ast.ParenExpr:
		return c.operand(e.X)
	case *ast.IndexExpr:
		return c.operand(e.X) + "[" + src(e.Index) + "]"
	}
	return src(e)
}

// receivers such as "c" or "g" in c.timeMutex are kept as the field path without the receiver name
func (c *ctx) operandSel(e ast.Expr) string {
	if id, ok := e.(*ast.Ident); ok {
		if id.Name == c.recv {
			return "recv"
		}
		return c.rename(id.Name)
	}
	return c.operand(e)
}

func src(n ast.Node) string {
	var b strings.Builder
	_ = printer.Fprint(&b, fset, n)
	return strings.Join(strings.Fields(b.String()), " ")
}

func funName(e ast.Expr) string {
	switch e := e.(type) {
	case *ast.Ident:
		return e.Name
	case *ast.SelectorExpr:
		return funName(e.X) + "." + e.Sel.Name
	case *ast.CallExpr:
		return funName(e.Fun) + "()"
	case *ast.ParenExpr:
		return funName(e.X)
	}
	return "_"
}

var syncMethods = map[string]bool{"Add": true, "Done": true, "Wait": true, "Lock": true, "Unlock": true,
	"Load": true, "LoadOrStore": true, "Store": true, "Delete": true, "Range": true, "Reset": true}

var keptMethods = map[string]bool{"Execute": true, "Plan": true, "Retrieve": true, "GetPlans": true, "Query": true, "WithMiddlewares": true}

func (c *ctx) call(call *ast.CallExpr) (string, bool) {
	if id, ok := call.Fun.(*ast.Ident); ok {
		switch {
		case id.Name == "close":
			return "(Close " + c.operand(call.Args[0]) + ")", true
		case c.locals[id.Name]:
			return "(CallLocal " + id.Name + ")", true
		case c.pkgFuncs[id.Name]:
			return "(Call " + id.Name + c.closureArgs(call) + ")", true
		}
		return "", false
	}
	if sel, ok := call.Fun.(*ast.SelectorExpr); ok {
		m := sel.Sel.Name
		if id, ok := sel.X.(*ast.Ident); ok && c.imports[id.Name] {
			return "", false // a function of another package
		}
		if m == "Add" {
			// only wait-group style Add(1) / Add(len(x)) is synchronisation
			isCount := false
			if len(call.Args) == 1 {
				if bl, ok := call.Args[0].(*ast.BasicLit); ok && bl.Kind == token.INT {
					isCount = true
				}
				if cc, ok := call.Args[0].(*ast.CallExpr); ok && funName(cc.Fun) == "len" {
					isCount = true
				}
			}
			if !isCount {
				return "", false
			}
		}
		if syncMethods[m] {
			arg := ""
			if m == "Add" && len(call.Args) == 1 {
				arg = " " + src(call.Args[0])
				if cc, ok := call.Args[0].(*ast.CallExpr); ok && funName(cc.Fun) == "len" {
					arg = " len"
				}
			}
			body := ""
			if m == "Range" && len(call.Args) == 1 {
				if fl, ok := call.Args[0].(*ast.FuncLit); ok {
					body = " {" + c.stmts(fl.Body.List) + "}"
				}
			}
			return "(" + m + " " + c.operand(sel.X) + arg + body + ")", true
		}
		if keptMethods[m] || c.pkgFuncs[m] {
			return "(Call ." + m + c.closureArgs(call) + ")", true
		}
	}
	return "", false
}

// a function literal passed as an argument is part of the protocol
func (c *ctx) closureArgs(call *ast.CallExpr) string {
	out := ""
	for _, a := range call.Args {
		if fl, ok := a.(*ast.FuncLit); ok {
			out += " {" + c.stmts(fl.Body.List) + "}"
		}
	}
	return out
}

func (c *ctx) exprEffects(e ast.Expr) string {
	// sync-relevant calls nested in an expression (e.g. in an if initialiser or an assignment)
	out := ""
	ast.Inspect(e, func(n ast.Node) bool {
		switch x := n.(type) {
		case *ast.FuncLit:
			return false
		case *ast.CallExpr:
			if r, ok := c.call(x); ok {
				out += r
				return false
			}
		case *ast.UnaryExpr:
			if x.Op == token.ARROW {
				out += "(Recv " + c.operand(x.X) + ")"
				return false
			}
		}
		return true
	})
	return out
}

func (c *ctx) stmts(l []ast.Stmt) string {
	var b strings.Builder
	for _, s := range l {
		b.WriteString(c.stmt(s))
	}
	return b.String()
}

func (c *ctx) stmt(s ast.Stmt) string {
	switch s := s.(type) {
	case *ast.ExprStmt:
		return c.exprEffects(s.X)
	case *ast.SendStmt:
		return "(Send " + c.operand(s.Chan) + ")"
	case *ast.GoStmt:
		if fl, ok := s.Call.Fun.(*ast.FuncLit); ok {
			return "(Go {" + c.stmts(fl.Body.List) + "})"
		}
		return "(Go " + funName(s.Call.Fun) + c.closureArgs(s.Call) + ")"
	case *ast.DeferStmt:
		if r, ok := c.call(s.Call); ok {
			return "(Defer " + r + ")"
		}
		if fl, ok := s.Call.Fun.(*ast.FuncLit); ok {
			return "(Defer {" + c.stmts(fl.Body.List) + "})"
		}
		return ""
	case *ast.AssignStmt:
		out := ""
		for i, r := range s.Rhs {
			// a closure kept in a variable: its body is part of the protocol wherever it is called
			if fl, ok := r.(*ast.FuncLit); ok && i < len(s.Lhs) {
				if id, ok := s.Lhs[i].(*ast.Ident); ok {
					if body := c.stmts(fl.Body.List); body != "" {
						if c.locals == nil {
							c.locals = map[string]bool{}
						}
						c.locals[id.Name] = true
						out += "(Closure " + id.Name + " {" + body + "})"
					}
					continue
				}
			}
			if call, ok := r.(*ast.CallExpr); ok {
				if id, ok := call.Fun.(*ast.Ident); ok && id.Name == "make" && len(call.Args) >= 1 {
					if _, ok := call.Args[0].(*ast.ChanType); ok {
						capv := "0"
						if len(call.Args) > 1 {
							capv = src(call.Args[1])
						}
						out += "(MakeChan " + c.operand(s.Lhs[i]) + " " + capv + ")"
						continue
					}
				}
				if id, ok := call.Fun.(*ast.Ident); ok && id.Name == "append" && i < len(s.Lhs) {
					out += "(Append " + src(s.Lhs[i]) + ")"
				}
			}
			out += c.exprEffects(r)
		}
		for _, l := range s.Lhs {
			if ix, ok := l.(*ast.IndexExpr); ok {
				out += "(StoreAt " + src(ix.X) + "[" + src(ix.Index) + "])"
			}
		}
		return out
	case *ast.DeclStmt:
		return ""
	case *ast.ForStmt:
		b := c.stmts(s.Body.List)
		if b == "" {
			return ""
		}
		if c.full && s.Cond != nil {
			return "(For [" + src(s.Cond) + "] {" + b + "})"
		}
		return "(For {" + b + "})"
	case *ast.RangeStmt:
		b := c.stmts(s.Body.List)
		if b == "" {
			return ""
		}
		over := ""
		if ch, ok := s.X.(*ast.Ident); ok {
			if _, known := c.names[ch.Name]; known {
				over = " " + c.operand(ch) // ranging over a channel
			}
		}
		if c.full && over == "" {
			over = " [" + src(s.X) + "]"
		}
		return "(Range" + over + " {" + b + "})"
	case *ast.IfStmt:
		init := ""
		if s.Init != nil {
			init = c.stmt(s.Init)
		}
		cond := c.exprEffects(s.Cond)
		b := c.stmts(s.Body.List)
		e := ""
		if s.Else != nil {
			e = c.stmt(s.Else)
		}
		if init+cond+b+e == "" {
			return ""
		}
		ct := ""
		if c.conds {
			ct = " [" + src(s.Cond) + "]"
		}
		out := init + "(If" + ct + " " + cond + "{" + b + "}"
		if e != "" {
			out += " else {" + e + "}"
		}
		return out + ")"
	case *ast.BlockStmt:
		return c.stmts(s.List)
	case *ast.SwitchStmt:
		out := ""
		n := 0
		for _, cl := range s.Body.List {
			cc := cl.(*ast.CaseClause)
			b := c.stmts(cc.Body)
			n += len(b)
			out += "(Case" + c.caseList(cc) + " {" + b + "})"
		}
		if n == 0 {
			return ""
		}
		if c.full && s.Tag != nil {
			return "(Switch [" + src(s.Tag) + "] " + out + ")"
		}
		return "(Switch " + out + ")"
	case *ast.TypeSwitchStmt:
		out := ""
		n := 0
		for _, cl := range s.Body.List {
			cc := cl.(*ast.CaseClause)
			b := c.stmts(cc.Body)
			n += len(b)
			out += "(Case" + c.caseList(cc) + " {" + b + "})"
		}
		if n == 0 {
			return ""
		}
		return "(Switch " + out + ")"
	case *ast.SelectStmt:
		out := "(Select "
		for _, cl := range s.Body.List {
			cc := cl.(*ast.CommClause)
			h := "default"
			if cc.Comm != nil {
				h = c.stmt(cc.Comm)
			}
			out += "(On " + h + " {" + c.stmts(cc.Body) + "})"
		}
		return out + ")"
	case *ast.LabeledStmt:
		return c.stmt(s.Stmt)
	case *ast.ReturnStmt:
		eff := ""
		for _, r := range s.Results {
			eff += c.exprEffects(r)
		}
		return eff + "(Return)"
	case *ast.BranchStmt:
		return "(" + strings.Title(s.Tok.String()) + ")"
	}
	return ""
}

// caseList renders the expressions (or types) of a case clause; "default" for the default clause
func (c *ctx) caseList(cc *ast.CaseClause) string {
	if !c.full {
		return ""
	}
	if cc.List == nil {
		return " [default]"
	}
	parts := []string{}
	for _, e := range cc.List {
		parts = append(parts, src(e))
	}
	return " [" + strings.Join(parts, ", ") + "]"
}

type target struct {
	file, recvType, fn string
	conds              bool
	suffix             string // distinguishes a second rendering of the same function (with its conditions)
	full               bool   // loop conditions, ranged-over expressions, switch tags and case lists as well
}

// writeSet lists, sorted and de-duplicated, the stores of a function that go through something
// other than a plain local variable: "P:" through a parameter or the receiver, "L:" through a
// local (an alias the function made), "D:" a delete() on a map, "M:" a method call on a plan or
// step (Add/Remove on a Set mutates it).  Function literals inside the body are included.
func writeSet(fd *ast.FuncDecl) string {
	params := map[string]bool{}
	if fd.Recv != nil {
		for _, f := range fd.Recv.List {
			for _, n := range f.Names {
				params[n.Name] = true
			}
		}
	}
	for _, f := range fd.Type.Params.List {
		for _, n := range f.Names {
			params[n.Name] = true
		}
	}
	rootOf := func(e ast.Expr) (string, bool) {
		plain := true
		for {
			switch x := e.(type) {
			case *ast.Ident:
				return x.Name, plain
			case *ast.SelectorExpr:
				e, plain = x.X, false
			case *ast.IndexExpr:
				e, plain = x.X, false
			case *ast.StarExpr:
				e, plain = x.X, false
			case *ast.ParenExpr:
				e = x.X
			default:
				return "?", false
			}
		}
	}
	set := map[string]bool{}
	record := func(kind string, e ast.Expr) {
		root, plain := rootOf(e)
		if plain && kind != "D" {
			return // assignment to a variable itself
		}
		tag := "L"
		if params[root] {
			tag = "P"
		}
		if kind != "" {
			tag = kind + tag
		}
		set[tag+":"+src(e)] = true
	}
	ast.Inspect(fd.Body, func(n ast.Node) bool {
		switch x := n.(type) {
		case *ast.AssignStmt:
			for _, l := range x.Lhs {
				record("", l)
			}
		case *ast.IncDecStmt:
			record("", x.X)
		case *ast.CallExpr:
			if id, ok := x.Fun.(*ast.Ident); ok && id.Name == "delete" && len(x.Args) > 0 {
				record("D", x.Args[0])
			}
			if sel, ok := x.Fun.(*ast.SelectorExpr); ok {
				switch sel.Sel.Name {
				case "Add", "Remove", "Store", "Delete", "LoadOrStore":
					if _, isIdent := sel.X.(*ast.Ident); !isIdent {
						set["M:"+src(sel.X)+"."+sel.Sel.Name] = true
					}
				}
			}
		}
		return true
	})
	keys := []string{}
	for k := range set {
		keys = append(keys, k)
	}
	sort.Strings(keys)
	return strings.Join(keys, " ; ")
}

func recvTypeName(fd *ast.FuncDecl) (typ, name string) {
	if fd.Recv == nil || len(fd.Recv.List) == 0 {
		return "", ""
	}
	f := fd.Recv.List[0]
	if len(f.Names) > 0 {
		name = f.Names[0].Name
	}
	t := f.Type
	if st, ok := t.(*ast.StarExpr); ok {
		t = st.X
	}
	if id, ok := t.(*ast.Ident); ok {
		typ = id.Name
	}
	return
}

func coqString(s string) string { return "\"" + strings.ReplaceAll(s, "\"", "\"\"") + "\"" }

func main() {
	if len(os.Args) < 3 {
		fmt.Fprintln(os.Stderr, "usage: gwtranslator <repo dir> <output .v file>")
		os.Exit(2)
	}
	repo, outPath := os.Args[1], os.Args[2]
	files := map[string]*ast.File{}
	pkgFuncs := map[string]bool{}
	for _, name := range []string{"execute.go", "plan.go", "http.go", "cache.go", "gateway.go", "middlewares.go", "merge.go", "internal.go"} {
		f, err := parser.ParseFile(fset, filepath.Join(repo, name), nil, 0)
		if err != nil {
			fmt.Fprintln(os.Stderr, "parse error:", err)
			os.Exit(1)
		}
		files[name] = f
		for _, d := range f.Decls {
			if fd, ok := d.(*ast.FuncDecl); ok {
				pkgFuncs[fd.Name.Name] = true
			}
		}
	}
	targets := []target{
		{"execute.go", "ParallelExecutor", "Execute", false, "", false}, {"execute.go", "", "executeStep", false, "", false},
		{"plan.go", "MinQueriesPlanner", "generatePlans", false, "", false}, {"plan.go", "MinQueriesPlanner", "extractSelection", false, "", false},
		{"http.go", "Gateway", "GraphQLHandler", false, "", false}, {"http.go", "Gateway", "setResultFunc", false, "", false}, {"http.go", "Gateway", "executeRequest", false, "", false},
		{"cache.go", "AutomaticQueryPlanCache", "Retrieve", true, "", false},
		{"gateway.go", "Gateway", "Execute", false, "", false},
		{"execute.go", "", "executorExtractValue", false, "", false}, {"execute.go", "", "executorInsertObject", false, "", false},
		{"execute.go", "", "executorFindInsertionPoints", false, "", false}, {"middlewares.go", "", "scrubInsertionIDs", false, "", false},
		// the comparisons mergeSchemas makes per kind (C03, C09, C10), conditions included
		{"merge.go", "", "mergeInterfaces", true, "", false}, {"merge.go", "", "mergeObjectTypes", true, "", false}, {"merge.go", "", "mergeInputObjects", true, "", false},
		{"merge.go", "", "mergeFieldList", true, "", false}, {"merge.go", "", "mergeFields", true, "", false}, {"merge.go", "", "mergeEnums", true, "", false},
		{"merge.go", "", "mergeEnumValues", true, "", false}, {"merge.go", "", "mergeScalars", true, "", false}, {"merge.go", "", "mergeUnions", true, "", false},
		{"merge.go", "", "mergeDirectives", true, "", false}, {"merge.go", "", "mergeDirectiveLocations", true, "", false},
		{"merge.go", "", "mergeArgumentDefinitionList", true, "", false}, {"merge.go", "", "mergeDirectiveListsEqual", true, "", false},
		{"merge.go", "", "mergeDirectiveEqual", true, "", false}, {"merge.go", "", "mergeInterfaceNames", true, "", false},
		{"merge.go", "", "mergeStringSliceEquivalent", true, "", false}, {"merge.go", "", "mergeTypesEqual", true, "", false}, {"merge.go", "", "mergeValuesEqual", true, "", false},
		{"merge.go", "", "mergeArgumentListEqual", true, "", false}, {"merge.go", "", "mergeArgumentsEqual", true, "", false}, {"merge.go", "", "mergeArgumentDefinitions", true, "", false},
		{"merge.go", "", "mergeSchemas", true, "", false},
		// small decision functions, conditions included: the routing table (C03), the chooser (C20), the lookup by operation name (C17)
		{"gateway.go", "", "fieldURLs", true, "", false}, {"gateway.go", "FieldURLMap", "URLFor", true, "", false}, {"gateway.go", "FieldURLMap", "Concat", true, "", false},
		{"gateway.go", "FieldURLMap", "RegisterURL", true, "", false}, {"gateway.go", "FieldURLMap", "keyFor", true, "", false},
		{"plan.go", "MinQueriesPlanner", "selectLocation", true, "", false}, {"plan.go", "QueryPlanList", "ForOperation", true, "", false},
		// the functions the remaining models were written from, conditions included (the suffix marks a
		// second rendering of a function whose synchronisation skeleton is listed above):
		// planner (C01, C02, C04, C08, C13)
		{"plan.go", "MinQueriesPlanner", "groupSelectionSet", true, "", true}, {"plan.go", "MinQueriesPlanner", "wrapSelectionSet", true, "", true},
		{"plan.go", "MinQueriesPlanner", "extractSelection", true, "_cond", true}, {"plan.go", "MinQueriesPlanner", "generatePlans", true, "_cond", true},
		{"plan.go", "", "plannerBuildQuery", true, "", true}, {"plan.go", "MinQueriesPlanner", "generateScrubFields", true, "", true},
		{"plan.go", "MinQueriesPlanner", "generateScrubFieldsWalk", true, "", true}, {"plan.go", "", "containsPath", true, "", true},
		{"plan.go", "MinQueriesPlanner", "Plan", true, "", true},
		// executor: one step, insertion points, stitching (C01, C02, C05, C07, C13, C19)
		{"execute.go", "", "executeOneStep", true, "", true}, {"execute.go", "", "findSelection", true, "", true},
		{"execute.go", "", "executorFindInsertionPoints", true, "_cond", true}, {"execute.go", "", "isListElement", true, "", true},
		{"execute.go", "", "executorExtractValue", true, "_cond", true}, {"execute.go", "", "executorInsertObject", true, "_cond", true},
		{"execute.go", "", "executorMergeObject", true, "", true}, {"execute.go", "", "executorMergeValue", true, "", true},
		{"execute.go", "", "executorGetPointData", true, "", true}, {"execute.go", "ParallelExecutor", "Execute", true, "_cond", true},
		{"middlewares.go", "", "scrubInsertionIDs", true, "_cond", true},
		// the gateway's own Execute and plan lookup (C17, C19)
		{"gateway.go", "Gateway", "Execute", true, "_cond", true}, {"gateway.go", "Gateway", "GetPlans", true, "", true},
		// HTTP: parsing, upload map, answers (C15, C16, C18)
		{"http.go", "", "formatErrors", true, "", true}, {"http.go", "", "formatErrorsWithCode", true, "", true},
		{"http.go", "Gateway", "GraphQLHandler", true, "_cond", true}, {"http.go", "Gateway", "executeRequest", true, "_cond", true},
		{"http.go", "", "parseRequest", true, "", true}, {"http.go", "", "parseGetRequest", true, "", true}, {"http.go", "", "parsePostRequest", true, "", true},
		{"http.go", "", "parseOperations", true, "", true}, {"http.go", "", "injectFile", true, "", true}, {"http.go", "", "emitResponse", true, "", true},
		// introspection resolvers (C14)
		{"internal.go", "Gateway", "Query", true, "", true}, {"internal.go", "Gateway", "introspectSchema", true, "", true},
		{"internal.go", "Gateway", "introspectType", true, "", true}, {"internal.go", "Gateway", "introspectField", true, "", true},
		{"internal.go", "", "deprecationReason", true, "", true}, {"internal.go", "Gateway", "introspectEnumValue", true, "", true},
		{"internal.go", "Gateway", "introspectDirective", true, "", true}, {"internal.go", "Gateway", "introspectInputValue", true, "", true},
		{"internal.go", "Gateway", "introspectInputValueSlice", true, "", true}, {"internal.go", "Gateway", "introspectFieldSlice", true, "", true},
		{"internal.go", "Gateway", "introspectEnumValueSlice", true, "", true}, {"internal.go", "Gateway", "introspectTypeSlice", true, "", true},
		{"internal.go", "Gateway", "introspectDirectiveSlice", true, "", true},
	}
	var out strings.Builder
	out.WriteString("(* GENERATED by /verif/translator from the working tree of nautilus/gateway; do not edit. *)\n")
	out.WriteString("From Coq Require Import String.\nOpen Scope string_scope.\n\n")
	for _, t := range targets {
		found := false
		for _, d := range files[t.file].Decls {
			fd, ok := d.(*ast.FuncDecl)
			if !ok || fd.Body == nil || fd.Name.Name != t.fn {
				continue
			}
			rt, rn := recvTypeName(fd)
			if rt != t.recvType {
				continue
			}
			found = true
			imports := map[string]bool{}
			for _, im := range files[t.file].Imports {
				p := strings.Trim(im.Path.Value, "\"")
				n := p[strings.LastIndex(p, "/")+1:]
				if im.Name != nil {
					n = im.Name.Name
				}
				imports[n] = true
			}
			c := &ctx{names: map[string]string{}, pkgFuncs: pkgFuncs, imports: imports, recv: rn, conds: t.conds, full: t.full}
			sk := c.stmts(fd.Body.List)
			fmt.Fprintf(&out, "Definition gen_%s_%s%s : string :=\n  %s.\n\n", strings.TrimSuffix(t.file, ".go"), t.fn, t.suffix, coqString(sk))
		}
		if !found {
			fmt.Fprintf(&out, "Definition gen_%s_%s%s : string := \"<missing>\".\n\n", strings.TrimSuffix(t.file, ".go"), t.fn, t.suffix)
		}
	}
	// write sets of the execution path
	for _, w := range []struct{ file, fn string }{
		{"gateway.go", "Execute"}, {"execute.go", "Execute"}, {"execute.go", "executeStep"}, {"execute.go", "executeOneStep"},
		{"execute.go", "findSelection"}, {"execute.go", "executorFindInsertionPoints"}, {"execute.go", "executorExtractValue"},
		{"execute.go", "executorInsertObject"}, {"execute.go", "executorMergeObject"}, {"execute.go", "executorMergeValue"},
		{"execute.go", "executorGetPointData"}, {"middlewares.go", "scrubInsertionIDs"},
	} {
		val := "<missing>"
		for _, d := range files[w.file].Decls {
			if fd, ok := d.(*ast.FuncDecl); ok && fd.Body != nil && fd.Name.Name == w.fn {
				if w.fn == "Execute" {
					rt, _ := recvTypeName(fd)
					if (w.file == "gateway.go") != (rt == "Gateway") {
						continue
					}
				}
				val = writeSet(fd)
			}
		}
		fmt.Fprintf(&out, "Definition gen_writes_%s_%s : string :=\n  %s.\n\n", strings.TrimSuffix(w.file, ".go"), w.fn, coqString(val))
	}
	// constants
	consts := map[string]string{}
	for _, f := range files {
		ast.Inspect(f, func(n ast.Node) bool {
			if vs, ok := n.(*ast.ValueSpec); ok {
				for i, id := range vs.Names {
					if i < len(vs.Values) {
						switch id.Name {
						case "maxResultBuffer", "maxConcurrentSteps", "MessageMissingCachedQuery", "internalSchemaLocation":
							consts[id.Name] = src(vs.Values[i])
						}
					}
				}
			}
			if kv, ok := n.(*ast.KeyValueExpr); ok {
				if id, ok := kv.Key.(*ast.Ident); ok && id.Name == "ttl" {
					if _, isIdent := kv.Value.(*ast.Ident); !isIdent {
						consts["defaultTTL"] = src(kv.Value)
					}
				}
			}
			return true
		})
	}
	keys := []string{}
	for k := range consts {
		keys = append(keys, k)
	}
	sort.Strings(keys)
	for _, k := range keys {
		fmt.Fprintf(&out, "Definition gen_const_%s : string := %s.\n", k, coqString(consts[k]))
	}
	// write only when the content changed, so that an unchanged tree needs no rebuild
	if old, err := os.ReadFile(outPath); err == nil && string(old) == out.String() {
		return
	}
	if err := os.WriteFile(outPath, []byte(out.String()), 0o644); err != nil {
		fmt.Fprintln(os.Stderr, err)
		os.Exit(1)
	}
}

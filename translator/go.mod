module gwtranslator

go 1.17
